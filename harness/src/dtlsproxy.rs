//! DTLS handshake rig (owner: C11 / C02): two (or more) real `DtlsTransport`s over `IceConn`s on
//! loopback UDP sockets, joined by a 4-socket proxy that understands epoch-0 DTLS records.
//!
//! The proxy classifies every datagram by content (record content type, epoch, and - for plaintext
//! handshake records - handshake type, message_seq, fragment offsets) and applies a *content-addressed*
//! schedule of operations `(dir, label, ordinal, kind)`:
//!
//!   network faults (C11):   drop | dup | hold (k later datagrams of the same direction overtake it)
//!                           | split (legal re-fragmentation of one handshake message into n fragments)
//!   adversary ops  (C02):   rewrite (certificate / SKE key / SKE signature / randoms / ...), omit (drop and
//!                           renumber), retype, inject (records built from the adversary's own credentials)
//!
//! Nothing here is time-addressed: the k-th datagram carrying label L in direction D is the same datagram
//! in every rerun, whatever the scheduling.
//!
//! Labels: CH SH HVR CERT SKE CR SHD CV CKE (plaintext handshake), FIN (encrypted handshake record),
//! CCS, ALERT, APP. A fragment produced by `split` is labelled `<L>#<i>` (i = 1..n). A datagram holding
//! several records is labelled by its records joined with '+'.

use bytes::Bytes;
use rustrtc::transports::PacketReceiver;
use rustrtc::transports::dtls::{self, Certificate, DtlsState, DtlsTransport};
use rustrtc::transports::ice::IceSocketWrapper;
use rustrtc::transports::ice::conn::IceConn;
use serde_json::{Value, json};
use std::collections::HashMap;
#[allow(unused_imports)]
use std::fmt::Write as _;
use std::net::SocketAddr;
use std::sync::Arc;
use tokio::net::UdpSocket;
use tokio::sync::{mpsc, watch};
use tokio::task::JoinHandle;

// ------------------------------------------------------------------------------------------------
// wire parsing (independent of the decoder under test)

#[derive(Clone, Debug)]
pub struct Rec {
    pub ver: (u8, u8),
    pub ctype: u8,
    pub epoch: u16,
    pub rseq: u64,
    pub body: Vec<u8>, // record payload
}

#[derive(Clone, Debug)]
pub struct Hs {
    pub typ: u8,
    pub total: u32,
    pub mseq: u16,
    pub off: u32,
    pub flen: u32,
    pub body: Vec<u8>,
}

pub fn parse_records(d: &[u8]) -> Vec<Rec> {
    let mut out = Vec::new();
    let mut i = 0;
    while d.len() >= i + 13 {
        let len = u16::from_be_bytes([d[i + 11], d[i + 12]]) as usize;
        if d.len() < i + 13 + len {
            break;
        }
        let mut s = [0u8; 8];
        s[2..8].copy_from_slice(&d[i + 5..i + 11]);
        out.push(Rec {
            ver: (d[i + 1], d[i + 2]),
            ctype: d[i],
            epoch: u16::from_be_bytes([d[i + 3], d[i + 4]]),
            rseq: u64::from_be_bytes(s),
            body: d[i + 13..i + 13 + len].to_vec(),
        });
        i += 13 + len;
    }
    out
}

/// Re-encode a parsed record with its original version bytes.
pub fn encode_record_raw(r: &Rec) -> Vec<u8> {
    let mut b = encode_record(r);
    b[1] = r.ver.0;
    b[2] = r.ver.1;
    b
}

pub fn encode_record(r: &Rec) -> Vec<u8> {
    let mut b = Vec::with_capacity(13 + r.body.len());
    b.push(r.ctype);
    b.extend_from_slice(&[254, 253]);
    b.extend_from_slice(&r.epoch.to_be_bytes());
    b.extend_from_slice(&r.rseq.to_be_bytes()[2..8]);
    b.extend_from_slice(&(r.body.len() as u16).to_be_bytes());
    b.extend_from_slice(&r.body);
    b
}

/// Handshake messages inside one plaintext handshake record.
pub fn parse_hs(p: &[u8]) -> Vec<Hs> {
    let mut out = Vec::new();
    let mut i = 0;
    while p.len() >= i + 12 {
        let total = u32::from_be_bytes([0, p[i + 1], p[i + 2], p[i + 3]]);
        let mseq = u16::from_be_bytes([p[i + 4], p[i + 5]]);
        let off = u32::from_be_bytes([0, p[i + 6], p[i + 7], p[i + 8]]);
        let flen = u32::from_be_bytes([0, p[i + 9], p[i + 10], p[i + 11]]);
        if p.len() < i + 12 + flen as usize {
            break;
        }
        out.push(Hs { typ: p[i], total, mseq, off, flen, body: p[i + 12..i + 12 + flen as usize].to_vec() });
        i += 12 + flen as usize;
    }
    out
}

pub fn encode_hs(h: &Hs) -> Vec<u8> {
    let mut b = Vec::with_capacity(12 + h.body.len());
    b.push(h.typ);
    b.extend_from_slice(&h.total.to_be_bytes()[1..4]);
    b.extend_from_slice(&h.mseq.to_be_bytes());
    b.extend_from_slice(&h.off.to_be_bytes()[1..4]);
    b.extend_from_slice(&h.flen.to_be_bytes()[1..4]);
    b.extend_from_slice(&h.body);
    b
}

pub fn hs_name(t: u8) -> &'static str {
    match t {
        0 => "HR",
        1 => "CH",
        2 => "SH",
        3 => "HVR",
        11 => "CERT",
        12 => "SKE",
        13 => "CR",
        14 => "SHD",
        15 => "CV",
        16 => "CKE",
        20 => "FIN0",
        _ => "HS?",
    }
}

pub fn hs_type_of(name: &str) -> u8 {
    match name {
        "HR" => 0,
        "CH" => 1,
        "SH" => 2,
        "HVR" => 3,
        "CERT" => 11,
        "SKE" => 12,
        "CR" => 13,
        "SHD" => 14,
        "CV" => 15,
        "CKE" => 16,
        "FIN0" | "FIN" => 20,
        _ => 255,
    }
}

pub fn rec_label(r: &Rec) -> String {
    match r.ctype {
        20 => "CCS".into(),
        21 => "ALERT".into(),
        23 => "APP".into(),
        22 if r.epoch > 0 => "FIN".into(),
        22 => {
            let hs = parse_hs(&r.body);
            match hs.first() {
                Some(h) if h.flen != h.total => format!("{}@{}", hs_name(h.typ), h.off),
                Some(h) => hs_name(h.typ).to_string(),
                None => "HS?".into(),
            }
        }
        _ => "?".into(),
    }
}

pub fn dgram_label(d: &[u8]) -> String {
    let recs = parse_records(d);
    if recs.is_empty() {
        return "?".into();
    }
    recs.iter().map(rec_label).collect::<Vec<_>>().join("+")
}

pub fn describe(d: &[u8]) -> Value {
    let recs = parse_records(d);
    Value::Array(
        recs.iter()
            .map(|r| {
                if r.ctype == 22 && r.epoch == 0 {
                    let hs = parse_hs(&r.body);
                    json!({"ct": r.ctype, "ep": r.epoch, "rs": r.rseq,
                           "hs": hs.iter().map(|h| json!({"t": hs_name(h.typ), "ms": h.mseq, "off": h.off,
                               "fl": h.flen, "tot": h.total, "bh": rustrtc::verif::hash32(&h.body)})).collect::<Vec<_>>()})
                } else {
                    json!({"ct": r.ctype, "ep": r.epoch, "rs": r.rseq, "len": r.body.len()})
                }
            })
            .collect(),
    )
}

// ------------------------------------------------------------------------------------------------
// schedule

#[derive(Clone, Debug)]
pub struct Op {
    pub dir: String,   // "C>S" | "S>C"
    pub label: String, // see module doc
    pub ord: u32,      // 1-based ordinal of (dir, label)
    pub kind: String,  // drop | dup | hold | split | rw | omit | inject
    pub arg: Value,    // kind-specific
    pub fired: bool,
}

impl Op {
    pub fn from_json(v: &Value) -> Op {
        Op {
            dir: v["dir"].as_str().unwrap_or("").to_string(),
            label: v["msg"].as_str().unwrap_or("").to_string(),
            ord: v["ord"].as_u64().unwrap_or(1) as u32,
            kind: v["kind"].as_str().unwrap_or("").to_string(),
            arg: v.get("arg").cloned().unwrap_or(Value::Null),
            fired: false,
        }
    }
    pub fn to_json(&self) -> Value {
        json!({"dir": self.dir, "msg": self.label, "ord": self.ord, "kind": self.kind, "arg": self.arg, "fired": self.fired})
    }
}

/// The on-path adversary M of C02: its own certificate and key, a DH share and a random.
pub struct Adversary {
    pub cert: Certificate,
    key: p256::ecdsa::SigningKey,
    dh_secret: p256::SecretKey,
    pub dh_pub: Vec<u8>, // uncompressed P-256 point
    pub random: [u8; 32],
}

/// TLS 1.2 PRF (SHA-256), RFC 5246 section 5.
fn tls_prf(secret: &[u8], label: &[u8], seed: &[u8], len: usize) -> Vec<u8> {
    use hmac::{Hmac, Mac};
    type H = Hmac<sha2::Sha256>;
    let mut real_seed = label.to_vec();
    real_seed.extend_from_slice(seed);
    let mut out = Vec::new();
    let mut a = real_seed.clone();
    while out.len() < len {
        let mut mac = <H as hmac::digest::KeyInit>::new_from_slice(secret).unwrap();
        mac.update(&a);
        a = mac.finalize().into_bytes().to_vec();
        let mut mac = <H as hmac::digest::KeyInit>::new_from_slice(secret).unwrap();
        mac.update(&a);
        mac.update(&real_seed);
        out.extend_from_slice(&mac.finalize().into_bytes());
    }
    out.truncate(len);
    out
}

fn sha256(d: &[u8]) -> Vec<u8> {
    use sha2::Digest;
    let mut h = sha2::Sha256::new();
    h.update(d);
    h.finalize().to_vec()
}

/// One AES-128-GCM protected DTLS 1.2 record (RFC 5288 nonce / AAD layout).
fn seal_record(ctype: u8, epoch: u16, seq: u64, plain: &[u8], key: &[u8], iv: &[u8]) -> Vec<u8> {
    use aes_gcm::aead::{AeadInPlace, KeyInit};
    let full = ((epoch as u64) << 48) | seq;
    let mut nonce = [0u8; 12];
    nonce[..4].copy_from_slice(iv);
    nonce[4..].copy_from_slice(&full.to_be_bytes());
    let mut aad = [0u8; 13];
    aad[..8].copy_from_slice(&full.to_be_bytes());
    aad[8] = ctype;
    aad[9] = 254;
    aad[10] = 253;
    aad[11..].copy_from_slice(&(plain.len() as u16).to_be_bytes());
    let cipher = aes_gcm::Aes128Gcm::new_from_slice(key).unwrap();
    let mut body = plain.to_vec();
    let tag = cipher.encrypt_in_place_detached(aes_gcm::Nonce::from_slice(&nonce), &aad, &mut body).unwrap();
    let mut payload = full.to_be_bytes().to_vec();
    payload.extend_from_slice(&body);
    payload.extend_from_slice(&tag);
    encode_record(&Rec { ver: (254, 253), ctype, epoch, rseq: seq, body: payload })
}

impl Adversary {
    pub fn new(cert: Certificate, random: [u8; 32]) -> Adversary {
        use p256::pkcs8::DecodePrivateKey;
        let key = p256::ecdsa::SigningKey::from_pkcs8_pem(&cert.private_key).expect("adversary key");
        // any valid curve point serves as the adversary's ECDH share; it takes a fresh one
        let sk = p256::SecretKey::random(&mut p256::elliptic_curve::rand_core::OsRng);
        use p256::elliptic_curve::sec1::ToEncodedPoint;
        let dh_pub = sk.public_key().to_encoded_point(false).as_bytes().to_vec();
        Adversary { cert, key, dh_secret: sk, dh_pub, random }
    }

    /// ECDSA-SHA256 (DER) by M's certificate key over client_random || server_random || ECDH params.
    fn sign_ske(&self, cr: &[u8], sr: &[u8], pk: &[u8]) -> Vec<u8> {
        use p256::ecdsa::signature::Signer;
        let mut m = Vec::new();
        m.extend_from_slice(cr);
        m.extend_from_slice(sr);
        m.push(3);
        m.extend_from_slice(&23u16.to_be_bytes());
        m.push(pk.len() as u8);
        m.extend_from_slice(pk);
        let sig: p256::ecdsa::Signature = self.key.sign(&m);
        sig.to_der().as_bytes().to_vec()
    }
}

fn ske_parts(body: &[u8]) -> Option<(Vec<u8>, Vec<u8>)> {
    // curve_type(1) named_curve(2) pklen(1) pk sigalg(2) siglen(2) sig
    if body.len() < 4 {
        return None;
    }
    let pl = body[3] as usize;
    if body.len() < 4 + pl + 4 {
        return None;
    }
    let pk = body[4..4 + pl].to_vec();
    let sl = u16::from_be_bytes([body[4 + pl + 2], body[4 + pl + 3]]) as usize;
    if body.len() < 4 + pl + 4 + sl {
        return None;
    }
    Some((pk, body[4 + pl + 4..4 + pl + 4 + sl].to_vec()))
}

fn ske_build(pk: &[u8], sig: &[u8]) -> Vec<u8> {
    let mut b = vec![3u8];
    b.extend_from_slice(&23u16.to_be_bytes());
    b.push(pk.len() as u8);
    b.extend_from_slice(pk);
    b.extend_from_slice(&[4, 3]);
    b.extend_from_slice(&(sig.len() as u16).to_be_bytes());
    b.extend_from_slice(sig);
    b
}

pub struct ProxyState {
    pub ops: Vec<Op>,
    counts: HashMap<(String, String), u32>,
    held: HashMap<String, Vec<(u32, Vec<u8>, String)>>, // dir -> (remaining, datagram, label)
    next_frag_rseq: u64,
    rseq_shift: HashMap<String, u64>,
    /// re-packing in progress per direction: (records still to collect, coalesce?, collected records)
    merging: HashMap<String, (usize, bool, Vec<Rec>)>,
    pub adversary: Option<Adversary>,
    /// randoms as last delivered towards the server (ClientHello) / the client (ServerHello)
    cr_seen: Vec<u8>,
    sr_seen: Vec<u8>,
    /// message_seq shift applied to plaintext handshake messages per direction (after an `omit`).
    seq_shift: HashMap<String, Vec<(u16, i32)>>,   // (from, delta): message_seq >= from moves by delta
    /// plaintext handshake messages as the client sent them / as they were delivered to the client (by message_seq)
    seen_c: std::collections::BTreeMap<u16, Vec<u8>>,
    seen_s: std::collections::BTreeMap<u16, Vec<u8>>,
    /// the adversary finishes the handshake in the server's place once the client has answered (inj_ske2)
    takeover_armed: bool,
    takeover_done: bool,
    /// datagrams of the adversary's own making to be sent by the proxy loop: (towards, bytes)
    pub reverse: Vec<(String, Vec<u8>)>,
    pub forwarded: u64,
    /// forward a datagram that packs several records as one datagram per record (same order), so that
    /// every record is individually addressable (peers that pack a whole flight into one datagram)
    pub unpack: bool,
    /// with `unpack`: send the surviving records of one original datagram as one datagram again
    pub repack: bool,
    /// every original (pre-fault) plaintext handshake message seen: (dir, type, mseq) -> body hash
    pub originals: Vec<Value>,
}

impl ProxyState {
    pub fn new(ops: Vec<Op>) -> Self {
        ProxyState {
            ops,
            counts: HashMap::new(),
            held: HashMap::new(),
            next_frag_rseq: 0x4000_0000,
            rseq_shift: HashMap::new(),
            merging: HashMap::new(),
            adversary: None,
            cr_seen: Vec::new(),
            sr_seen: Vec::new(),
            seq_shift: HashMap::new(),
            seen_c: Default::default(),
            seen_s: Default::default(),
            takeover_armed: false,
            takeover_done: false,
            reverse: Vec::new(),
            forwarded: 0,
            unpack: false,
            repack: false,
            originals: Vec::new(),
        }
    }

    fn ordinal(&mut self, dir: &str, label: &str) -> u32 {
        let c = self.counts.entry((dir.to_string(), label.to_string())).or_insert(0);
        *c += 1;
        *c
    }

    fn take_op(&mut self, dir: &str, label: &str, ord: u32, kinds: &[&str]) -> Option<Op> {
        for op in self.ops.iter_mut() {
            if !op.fired && op.dir == dir && op.label == label && op.ord == ord && kinds.contains(&op.kind.as_str()) {
                op.fired = true;
                return Some(op.clone());
            }
        }
        None
    }

    /// Legal re-fragmentation of the (single, unfragmented) handshake message in `d` into `n` fragments.
    /// `cuts` (optional) are the fragment boundaries as byte offsets into the message body.
    /// Fragments given as [lo, hi) ranges in sixths of the body (they may overlap or repeat): legal per RFC 6347
    /// 4.2.3 ("fragments may overlap").
    fn split_ranges(&mut self, d: &[u8], ranges: &[(usize, usize)]) -> Option<Vec<(Vec<u8>, usize)>> {
        let recs = parse_records(d);
        if recs.len() != 1 || recs[0].ctype != 22 || recs[0].epoch != 0 {
            return None;
        }
        let hs = parse_hs(&recs[0].body);
        if hs.len() != 1 || hs[0].off != 0 || hs[0].flen != hs[0].total {
            return None;
        }
        let h = &hs[0];
        let len = h.body.len();
        if len < 6 {
            return None;
        }
        let at = |u: usize| match u {
            0 => 0,
            2 => len / 3,
            3 => len / 2,
            4 => 2 * len / 3,
            6 => len,
            x => x * len / 6,
        };
        let mut out = Vec::new();
        for (i, (lo, hi)) in ranges.iter().enumerate() {
            let (a, b) = (at(*lo), at(*hi));
            let fh = Hs { typ: h.typ, total: h.total, mseq: h.mseq, off: a as u32, flen: (b - a) as u32, body: h.body[a..b].to_vec() };
            out.push((encode_record(&Rec { ver: (254, 253), ctype: 22, epoch: 0, rseq: recs[0].rseq + i as u64, body: encode_hs(&fh) }), i + 1));
        }
        Some(out)
    }

    fn split(&mut self, d: &[u8], n: usize, cuts: Option<Vec<usize>>, same_dgram: bool) -> Option<Vec<(Vec<u8>, usize)>> {
        let recs = parse_records(d);
        if recs.len() != 1 || recs[0].ctype != 22 || recs[0].epoch != 0 {
            return None;
        }
        let hs = parse_hs(&recs[0].body);
        if hs.len() != 1 || hs[0].off != 0 || hs[0].flen != hs[0].total {
            return None;
        }
        let h = &hs[0];
        let len = h.body.len();
        if len < n {
            return None;
        }
        let mut bounds: Vec<usize> = match cuts {
            Some(c) => c.into_iter().filter(|x| *x > 0 && *x < len).collect(),
            None => (1..n).map(|i| i * len / n).collect(),
        };
        bounds.sort();
        bounds.dedup();
        let mut edges = vec![0usize];
        edges.extend(bounds);
        edges.push(len);
        let mut frags = Vec::new();
        for (i, w) in edges.windows(2).enumerate() {
            let fh = Hs { typ: h.typ, total: h.total, mseq: h.mseq, off: w[0] as u32, flen: (w[1] - w[0]) as u32, body: h.body[w[0]..w[1]].to_vec() };
            let rseq = recs[0].rseq + i as u64;
            frags.push(encode_record(&Rec { ver: (254, 253), ctype: 22, epoch: 0, rseq, body: encode_hs(&fh) }));
        }
        if same_dgram {
            Some(vec![(frags.concat(), 0)])
        } else {
            Some(frags.into_iter().enumerate().map(|(i, f)| (f, i + 1)).collect())
        }
    }

    /// Adversary operation `what` on the single plaintext handshake message in `d`.
    /// Returns the datagrams that replace it (injections put a record of M's making in front).
    fn rewrite(&mut self, what: &str, d: &[u8]) -> Vec<Vec<u8>> {
        let Some(adv) = self.adversary.as_ref() else { return vec![d.to_vec()] };
        let recs = parse_records(d);
        if what == "inj_app0" {
            self.next_frag_rseq += 1;
            let r = Rec { ver: (254, 253), ctype: 23, epoch: 0, rseq: self.next_frag_rseq, body: b"injected-plaintext-appdata".to_vec() };
            return vec![encode_record(&r), d.to_vec()];
        }
        if matches!(what, "inj_sh2" | "inj_cert2" | "inj_ske2") {
            // a second ServerHello / Certificate / ServerKeyExchange of M's making, at the message_seq of the message
            // it precedes (ServerHelloDone), which moves up by one
            let first = recs.first().filter(|r| r.ctype == 22 && r.epoch == 0).and_then(|r| parse_hs(&r.body).first().cloned());
            let Some(first) = first else { return vec![d.to_vec()] };
            let body = match what {
                "inj_sh2" => {
                    let mut b = vec![254u8, 253];
                    b.extend_from_slice(&adv.random);
                    b.push(0); // session id
                    b.extend_from_slice(&[0xC0, 0x2B, 0]); // cipher suite, compression
                    b.extend_from_slice(&[0x00, 0x09, 0x00, 0x17, 0x00, 0x00, 0x00, 0x0e, 0x00, 0x05, 0x00, 0x02, 0x00, 0x01, 0x00]); // EMS, use_srtp
                    b
                }
                "inj_cert2" => {
                    let der = &adv.cert.certificate[0];
                    let mut b = Vec::new();
                    b.extend_from_slice(&((der.len() + 3) as u32).to_be_bytes()[1..4]);
                    b.extend_from_slice(&(der.len() as u32).to_be_bytes()[1..4]);
                    b.extend_from_slice(der);
                    b
                }
                _ => ske_build(&adv.dh_pub, &adv.sign_ske(&self.cr_seen, &self.sr_seen, &adv.dh_pub)),
            };
            let typ = match what { "inj_sh2" => 2, "inj_cert2" => 11, _ => 12 };
            self.next_frag_rseq += 1;
            let h = Hs { typ, total: body.len() as u32, mseq: first.mseq, off: 0, flen: body.len() as u32, body };
            let r = Rec { ver: (254, 253), ctype: 22, epoch: 0, rseq: recs[0].rseq, body: encode_hs(&h) };
            let dir_rules = self.seq_shift.entry("S>C".to_string()).or_default();
            dir_rules.push((first.mseq, 1));
            *self.rseq_shift.entry("S>C".to_string()).or_insert(0) += 1;
            if what == "inj_ske2" {
                self.takeover_armed = true;
            }
            // the original follows with its record number moved up like everything behind it
            let mut orig = Vec::new();
            for mut r2 in parse_records(d) {
                if r2.epoch == 0 {
                    r2.rseq += 1;
                }
                orig.extend(encode_record_raw(&r2));
            }
            return vec![encode_record(&r), orig];
        }
        if what == "inj_fin0" {
            // a plaintext Finished with the message_seq of the message it precedes
            let ms = recs.first().filter(|r| r.ctype == 22 && r.epoch == 0).and_then(|r| parse_hs(&r.body).first().map(|h| h.mseq));
            let Some(ms) = ms else { return vec![d.to_vec()] };
            self.next_frag_rseq += 1;
            let h = Hs { typ: 20, total: 12, mseq: ms, off: 0, flen: 12, body: vec![0xA5; 12] };
            let r = Rec { ver: (254, 253), ctype: 22, epoch: 0, rseq: self.next_frag_rseq, body: encode_hs(&h) };
            return vec![encode_record(&r), d.to_vec()];
        }
        if recs.len() != 1 || recs[0].ctype != 22 || recs[0].epoch != 0 {
            return vec![d.to_vec()];
        }
        let hs = parse_hs(&recs[0].body);
        if hs.len() != 1 || hs[0].flen != hs[0].total {
            return vec![d.to_vec()];
        }
        let mut h = hs[0].clone();
        match (what, h.typ) {
            ("rw_cert", 11) => {
                let der = &adv.cert.certificate[0];
                let mut b = Vec::new();
                b.extend_from_slice(&((der.len() + 3) as u32).to_be_bytes()[1..4]);
                b.extend_from_slice(&(der.len() as u32).to_be_bytes()[1..4]);
                b.extend_from_slice(der);
                h.body = b;
            }
            ("rw_cert_pre", 11) | ("rw_cert_app", 11) => {
                // keep the presented list, put M's certificate in front of it / behind it
                let der = &adv.cert.certificate[0];
                let old = if h.body.len() >= 3 { h.body[3..].to_vec() } else { Vec::new() };
                let mut mine = Vec::new();
                mine.extend_from_slice(&(der.len() as u32).to_be_bytes()[1..4]);
                mine.extend_from_slice(der);
                let list = if what == "rw_cert_pre" { [mine, old].concat() } else { [old, mine].concat() };
                let mut b = Vec::new();
                b.extend_from_slice(&(list.len() as u32).to_be_bytes()[1..4]);
                b.extend_from_slice(&list);
                h.body = b;
            }
            ("rw_ske_key", 12) => {
                if let Some((_, sig)) = ske_parts(&h.body) {
                    h.body = ske_build(&adv.dh_pub, &sig);
                }
            }
            ("rw_ske_sig", 12) => {
                if let Some((pk, _)) = ske_parts(&h.body) {
                    let sig = adv.sign_ske(&self.cr_seen, &self.sr_seen, &pk);
                    h.body = ske_build(&pk, &sig);
                }
            }
            ("rw_ske_full", 12) => {
                let sig = adv.sign_ske(&self.cr_seen, &self.sr_seen, &adv.dh_pub);
                h.body = ske_build(&adv.dh_pub, &sig);
            }
            ("rw_crand", 1) | ("rw_srand", 2) => {
                if h.body.len() >= 34 {
                    h.body[2..34].copy_from_slice(&adv.random);
                }
            }
            ("rw_prof", 2) => {
                // use_srtp extension of ServerHello: 00 0e 00 05 00 02 <profile> 00
                if let Some(p) = h.body.windows(6).position(|w| w == [0x00, 0x0e, 0x00, 0x05, 0x00, 0x02]) {
                    let cur = u16::from_be_bytes([h.body[p + 6], h.body[p + 7]]);
                    let new: u16 = if cur == 0x0001 { 0x0007 } else { 0x0001 };
                    h.body[p + 6..p + 8].copy_from_slice(&new.to_be_bytes());
                }
            }
            ("rw_cke_key", 16) => {
                let mut b = vec![adv.dh_pub.len() as u8];
                b.extend_from_slice(&adv.dh_pub);
                h.body = b;
            }
            _ => return vec![d.to_vec()],
        }
        h.total = h.body.len() as u32;
        h.flen = h.total;
        let r = Rec { ver: (254, 253), ctype: 22, epoch: 0, rseq: recs[0].rseq, body: encode_hs(&h) };
        vec![encode_record(&r)]
    }

    fn note_randoms(&mut self, d: &[u8]) {
        for r in parse_records(d) {
            if r.ctype == 22 && r.epoch == 0 {
                for h in parse_hs(&r.body) {
                    if h.off == 0 && h.flen == h.total && h.body.len() >= 34 {
                        if h.typ == 2 {
                            self.sr_seen = h.body[2..34].to_vec();
                        }
                    }
                }
            }
        }
    }

    fn apply_seq_shift(&self, dir: &str, d: &[u8]) -> Vec<u8> {
        let Some(rules) = self.seq_shift.get(dir) else { return d.to_vec() };
        if rules.is_empty() {
            return d.to_vec();
        }
        let mut out = Vec::new();
        for mut r in parse_records(d) {
            if r.ctype == 22 && r.epoch == 0 {
                let mut body = Vec::new();
                for mut h in parse_hs(&r.body) {
                    let delta: i32 = rules.iter().filter(|(from, _)| h.mseq >= *from).map(|(_, d)| *d).sum();
                    h.mseq = (h.mseq as i32 + delta).max(0) as u16;
                    body.extend(encode_hs(&h));
                }
                r.body = body;
            }
            out.extend(encode_record_raw(&r));
        }
        out
    }

    /// The adversary completes the handshake with the client under its own ECDHE share (the client derived its
    /// keys from it): ChangeCipherSpec + a correct Finished, then one ApplicationData record.
    fn takeover(&mut self) {
        let Some(adv) = self.adversary.as_ref() else { return };
        let (Some(ch), Some((cke_ms, cke))) = (self.seen_c.get(&0).cloned(), self.seen_c.iter().find(|(_, m)| m[0] == 16).map(|(k, v)| (*k, v.clone()))) else { return };
        let sh = self.seen_s.values().filter(|m| m[0] == 2).last().cloned();
        let Some(sh) = sh else { return };
        if ch.len() < 12 + 34 || sh.len() < 12 + 34 || cke.len() < 13 {
            return;
        }
        let client_random = ch[12 + 2..12 + 34].to_vec();
        let server_random = sh[12 + 2..12 + 34].to_vec();
        let pl = cke[12] as usize;
        let Ok(peer) = p256::PublicKey::from_sec1_bytes(&cke[13..13 + pl]) else { return };
        let shared = p256::ecdh::diffie_hellman(adv.dh_secret.to_nonzero_scalar(), peer.as_affine());
        let mut transcript = ch.clone();
        for m in self.seen_s.values() {
            transcript.extend_from_slice(m);
        }
        transcript.extend_from_slice(&cke);
        // extended master secret (both rustrtc roles negotiate it)
        let master = tls_prf(shared.raw_secret_bytes(), b"extended master secret", &sha256(&transcript), 48);
        let kb = tls_prf(&master, b"key expansion", &[server_random.as_slice(), client_random.as_slice()].concat(), 40);
        let (skey, siv) = (kb[16..32].to_vec(), kb[36..40].to_vec());
        let cfin = tls_prf(&master, b"client finished", &sha256(&transcript), 12);
        transcript.extend_from_slice(&encode_hs(&Hs { typ: 20, total: 12, mseq: cke_ms + 1, off: 0, flen: 12, body: cfin }));
        let sfin = tls_prf(&master, b"server finished", &sha256(&transcript), 12);
        let next_ms = self.seen_s.keys().max().map(|k| k + 1).unwrap_or(0);
        let fin = encode_hs(&Hs { typ: 20, total: 12, mseq: next_ms, off: 0, flen: 12, body: sfin });
        let mut d = encode_record(&Rec { ver: (254, 253), ctype: 20, epoch: 0, rseq: 200, body: vec![1] });
        d.extend_from_slice(&seal_record(22, 1, 0, &fin, &skey, &siv));
        net_event("takeover", json!({"keys": rustrtc::verif::hash32(&master)}));
        self.reverse.push(("S>C".to_string(), d));
        self.reverse.push(("S>C".to_string(), seal_record(23, 1, 1, b"adversary-appdata", &skey, &siv)));
        self.takeover_done = true;
    }

    fn note_plain(&mut self, dir: &str, d: &[u8]) {
        for r in parse_records(d) {
            if r.ctype == 22 && r.epoch == 0 {
                for h in parse_hs(&r.body) {
                    if h.off == 0 && h.flen == h.total {
                        let raw = encode_hs(&h);
                        if dir == "C>S" {
                            self.seen_c.entry(h.mseq).or_insert(raw);
                        } else {
                            self.seen_s.insert(h.mseq, raw);
                        }
                    }
                }
            }
        }
    }

    /// Process one datagram travelling in `dir`; returns the datagrams to put on the wire now, in order.
    pub fn process(&mut self, dir: &str, d: &[u8]) -> Vec<Vec<u8>> {
        if self.unpack {
            let recs = parse_records(d);
            if recs.len() > 1 {
                let mut out = Vec::new();
                for r in recs {
                    out.extend(self.process_one(dir, &encode_record_raw(&r)));
                }
                if self.repack && out.len() > 1 {
                    // the operations were applied record by record; what is left travels again as the one
                    // datagram the peer packed (the receiver has to walk several records per datagram)
                    net_event("repack", json!({"dir": dir, "n": out.len()}));
                    return vec![out.concat()];
                }
                return out;
            }
        }
        self.process_one(dir, d)
    }

    /// Record sequence numbers of epoch-0 records are renumbered after a split so that the fragments sit
    /// where the original record was and everything behind them moves up - what a sender that fragments
    /// would produce (record headers of epoch 0 are not authenticated). Peers with an anti-replay window
    /// would otherwise see fragment records far in the future and then discard the genuine ones as old.
    fn apply_rseq_shift(&self, dir: &str, d: &[u8]) -> Vec<u8> {
        let shift = *self.rseq_shift.get(dir).unwrap_or(&0);
        if shift == 0 {
            return d.to_vec();
        }
        let mut out = Vec::new();
        for mut r in parse_records(d) {
            if r.epoch == 0 {
                r.rseq += shift;
            }
            out.extend(encode_record_raw(&r));
        }
        if out.is_empty() { d.to_vec() } else { out }
    }

    fn process_one(&mut self, dir: &str, d0: &[u8]) -> Vec<Vec<u8>> {
        let shifted = self.apply_rseq_shift(dir, d0);
        let d: &[u8] = &shifted;
        // the client's own random (what it will verify a ServerKeyExchange signature against), before any rewrite
        for r in parse_records(d) {
            if r.ctype == 22 && r.epoch == 0 {
                for h in parse_hs(&r.body) {
                    if h.typ == 1 && h.off == 0 && h.flen == h.total && h.body.len() >= 34 {
                        self.cr_seen = h.body[2..34].to_vec();
                    }
                }
            }
        }
        if dir == "C>S" {
            self.note_plain(dir, d);
            if self.takeover_armed && !self.takeover_done && self.seen_c.values().any(|m| m[0] == 16) {
                self.takeover();
            }
        }
        let base = dgram_label(d);
        // remember the original plaintext handshake messages (content oracle for reassembly checks)
        for r in parse_records(d) {
            if r.ctype == 22 && r.epoch == 0 {
                for h in parse_hs(&r.body) {
                    if h.off == 0 && h.flen == h.total {
                        self.originals.push(json!({"dir": dir, "t": h.typ, "ms": h.mseq, "len": h.body.len(),
                                                   "bh": rustrtc::verif::hash32(&h.body)}));
                    }
                }
            }
        }
        let ord = self.ordinal(dir, &base);
        net_event("rx", json!({"dir": dir, "msg": base, "ord": ord, "recs": describe(d)}));

        // stage 1: transformations of the datagram itself
        let mut stage1: Vec<(Vec<u8>, String, u32, bool)> = Vec::new(); // (bytes, label, ordinal, of M's making)
        if let Some(op) = self.take_op(dir, &base, ord, &["split"]) {
            let n = op.arg["n"].as_u64().unwrap_or(2) as usize;
            let cuts = op.arg["cuts"].as_array().map(|a| a.iter().filter_map(|x| x.as_u64().map(|y| y as usize)).collect());
            let same = op.arg["same_dgram"].as_bool().unwrap_or(false);
            let ranges: Option<Vec<(usize, usize)>> = op.arg["ranges"].as_array().map(|a| {
                a.iter().filter_map(|x| Some((x.get(0)?.as_u64()? as usize, x.get(1)?.as_u64()? as usize))).collect()
            });
            let parts = match &ranges {
                Some(r) => self.split_ranges(d, r),
                None => self.split(d, n, cuts, same),
            };
            match parts {
                Some(parts) => {
                    *self.rseq_shift.entry(dir.to_string()).or_insert(0) += parts.len().saturating_sub(1) as u64;
                    net_event("split", json!({"dir": dir, "msg": base, "ord": ord, "n": parts.len(), "same_dgram": same}));
                    for (bytes, idx) in parts {
                        if idx == 0 {
                            stage1.push((bytes, base.clone(), ord, false));
                        } else {
                            let l = format!("{base}#{idx}");
                            let o = self.ordinal(dir, &l);
                            stage1.push((bytes, l, o, false));
                        }
                    }
                }
                None => {
                    net_event("split_na", json!({"dir": dir, "msg": base, "ord": ord}));
                    stage1.push((d.to_vec(), base.clone(), ord, false));
                }
            }
        } else if let Some(op) = self.take_op(dir, &base, ord, &["rw", "omit", "inject_before", "inject_after"]) {
            match op.kind.as_str() {
                "omit" => {
                    // drop the message and close the gap in message_seq for everything that follows
                    let n_hs: i32 = parse_records(d).iter().filter(|r| r.ctype == 22 && r.epoch == 0).map(|r| parse_hs(&r.body).len() as i32).sum();
                    let from = parse_records(d).iter().filter(|r| r.ctype == 22 && r.epoch == 0).flat_map(|r| parse_hs(&r.body)).map(|h| h.mseq).min().unwrap_or(0);
                    if n_hs > 0 {
                        self.seq_shift.entry(dir.to_string()).or_default().push((from, -n_hs));
                    }
                    net_event("omit", json!({"dir": dir, "msg": base, "ord": ord}));
                }
                _ => {
                    let what = op.arg["what"].as_str().unwrap_or("").to_string();
                    let outs = self.rewrite(&what, d);
                    let orig_ms: Vec<Value> = parse_records(d).iter().filter(|r| r.ctype == 22 && r.epoch == 0)
                        .flat_map(|r| parse_hs(&r.body)).map(|h| json!(h.mseq)).collect();
                    net_event("rw", json!({"dir": dir, "msg": base, "ord": ord, "kind": op.kind, "arg": op.arg, "n_out": outs.len(),
                                           "orig_ms": orig_ms, "outs": outs.iter().map(|o| describe(o)).collect::<Vec<_>>()}));
                    let n = outs.len();
                    for (i, o) in outs.into_iter().enumerate() {
                        // injected records travel unlabelled (they are not addressable by later ops)
                        let l = if i + 1 < n { format!("inj:{}", dgram_label(&o)) } else { dgram_label(&o) };
                        stage1.push((o, l, ord, i + 1 < n));
                    }
                }
            }
        } else {
            stage1.push((d.to_vec(), base.clone(), ord, false));
        }

        // stage 2: network faults on each resulting datagram
        let mut wire = Vec::new();
        for (bytes, label, o, made) in stage1 {
            let bytes = if made { bytes } else { self.apply_seq_shift(dir, &bytes) };
            #[allow(unused_mut)]
            let mut bytes = bytes;
            if self.takeover_armed && dir == "S>C" && !made && !label.starts_with("SHD") && self.seen_s.values().any(|m| m[0] == 14) {
                // the adversary has taken the server's place: nothing more from the genuine server reaches the client
                net_event("mdrop", json!({"dir": dir, "msg": label, "ord": o}));
                continue;
            }
            if self.take_op(dir, &label, o, &["drop"]).is_some() {
                net_event("drop", json!({"dir": dir, "msg": label, "ord": o}));
                continue;
            }
            // legal re-packing (RFC 6347 4.2.3 / 4.1.1): consecutive plaintext handshake records as ONE record holding
            // all their handshake messages (merge), or as one datagram holding the records (coalesce)
            let plain_hs = {
                let r = parse_records(&bytes);
                r.len() == 1 && r[0].ctype == 22 && r[0].epoch == 0
            };
            let mut bytes = bytes;
            if let Some((left, coal, mut recs)) = self.merging.remove(dir) {
                if plain_hs {
                    recs.extend(parse_records(&bytes));
                    if left > 1 {
                        self.merging.insert(dir.to_string(), (left - 1, coal, recs));
                        continue;
                    }
                    bytes = if coal {
                        recs.iter().flat_map(|r| encode_record_raw(r)).collect()
                    } else {
                        let body: Vec<u8> = recs.iter().flat_map(|r| r.body.clone()).collect();
                        encode_record(&Rec { ver: recs[0].ver, ctype: 22, epoch: 0, rseq: recs[0].rseq, body })
                    };
                    net_event("repacked", json!({"dir": dir, "kind": if coal { "coalesce" } else { "merge" }, "n": recs.len(), "recs": describe(&bytes)}));
                } else {
                    // something else follows: what was collected goes out as it was
                    for r in &recs {
                        let b = encode_record_raw(r);
                        net_event("tx", json!({"dir": dir, "msg": rec_label(r), "ord": 0, "dup": false, "recs": describe(&b)}));
                        if dir == "S>C" {
                            self.note_plain(dir, &b);
                        }
                        wire.push(b);
                    }
                }
            } else if plain_hs {
                if let Some(op) = self.take_op(dir, &label, o, &["merge", "coalesce"]) {
                    let n = op.arg["n"].as_u64().unwrap_or(2) as usize;
                    net_event("repack", json!({"dir": dir, "msg": label, "ord": o, "kind": op.kind, "n": n}));
                    if n > 1 {
                        self.merging.insert(dir.to_string(), (n - 1, op.kind == "coalesce", parse_records(&bytes)));
                        continue;
                    }
                }
            }
            if let Some(op) = self.take_op(dir, &label, o, &["hold"]) {
                let k = op.arg["k"].as_u64().unwrap_or(1) as u32;
                net_event("hold", json!({"dir": dir, "msg": label, "ord": o, "k": k}));
                self.held.entry(dir.to_string()).or_default().push((k, bytes, label));
                continue;
            }
            self.note_randoms(&bytes);
            if dir == "S>C" {
                self.note_plain(dir, &bytes);
            }
            let dup = self.take_op(dir, &label, o, &["dup"]).is_some();
            net_event("tx", json!({"dir": dir, "msg": label, "ord": o, "dup": dup, "recs": describe(&bytes)}));
            wire.push(bytes.clone());
            if dup {
                wire.push(bytes);
            }
            // one datagram has overtaken every held datagram of this direction
            if let Some(h) = self.held.get_mut(dir) {
                let mut keep = Vec::new();
                for (k, b, l) in h.drain(..) {
                    if k <= 1 {
                        net_event("release", json!({"dir": dir, "msg": l, "recs": describe(&b)}));
                        wire.push(b);
                    } else {
                        keep.push((k - 1, b, l));
                    }
                }
                *h = keep;
            }
        }
        self.forwarded += wire.len() as u64;
        wire
    }

    pub fn held_count(&self) -> usize {
        self.held.values().map(|v| v.len()).sum()
    }
}

pub fn net_event(ev: &'static str, fields: Value) {
    rustrtc::verif::emit("net", "P", ev, fields);
}

// ------------------------------------------------------------------------------------------------
// endpoints

pub struct Endpoint {
    pub label: String,
    pub is_client: bool,
    pub dtls: Arc<DtlsTransport>,
    pub conn: Arc<IceConn>,
    pub app_rx: mpsc::UnboundedReceiver<Bytes>,
    pub sock: Arc<UdpSocket>,
    pub addr: SocketAddr,
    pub cert: Certificate,
    pub fp: String,
    _sock_tx: watch::Sender<Option<IceSocketWrapper>>,
    runner: parking_lot::Mutex<Option<std::pin::Pin<Box<dyn std::future::Future<Output = ()> + Send>>>>,
    tasks: Vec<JoinHandle<()>>,
}

impl Endpoint {
    /// Build the endpoint (registers the DTLS receiver with the IceConn) but start nothing yet.
    pub async fn build(label: &str, is_client: bool, cert: Certificate, expected_fp: Option<String>, remote: SocketAddr) -> anyhow::Result<Endpoint> {
        let sock = Arc::new(UdpSocket::bind("127.0.0.1:0").await?);
        let addr = sock.local_addr()?;
        let (tx, rx) = watch::channel(Some(IceSocketWrapper::Udp(sock.clone())));
        let conn = IceConn::new(rx, remote, Some(label.to_string()));
        let fp = dtls::fingerprint(&cert);
        let (dtls, app_rx, runner) = DtlsTransport::new(conn.clone(), cert.clone(), is_client, 2048, expected_fp).await?;
        Ok(Endpoint {
            label: label.to_string(),
            is_client,
            dtls,
            conn,
            app_rx,
            sock,
            addr,
            cert,
            fp,
            _sock_tx: tx,
            runner: parking_lot::Mutex::new(Some(Box::pin(runner))),
            tasks: Vec::new(),
        })
    }

    /// Start the socket read loop (the DTLS receiver is already registered) and then the handshake task.
    pub fn start(&mut self) {
        let sock = self.sock.clone();
        let conn = self.conn.clone();
        self.tasks.push(tokio::spawn(async move {
            let mut buf = vec![0u8; 4096];
            let mut mb = Vec::new();
            loop {
                match sock.recv_from(&mut buf).await {
                    Ok((n, from)) => conn.receive(Bytes::copy_from_slice(&buf[..n]), from, &mut mb).await,
                    Err(_) => break,
                }
            }
        }));
        let r = self.runner.lock().take();
        if let Some(r) = r {
            self.tasks.push(tokio::spawn(r));
        }
    }

    pub fn state_name(&self) -> &'static str {
        state_name(&self.dtls.get_state())
    }

    /// Stop every task of this endpoint and wait until they are gone (no hook event can follow).
    pub async fn shutdown(mut self) {
        self.dtls.close();
        for t in &self.tasks {
            t.abort();
        }
        for t in self.tasks.drain(..) {
            let _ = t.await;
        }
    }
}

pub fn state_name(s: &DtlsState) -> &'static str {
    match s {
        DtlsState::New => "New",
        DtlsState::Handshaking => "Handshaking",
        DtlsState::Connected(..) => "Connected",
        DtlsState::Failed => "Failed",
        DtlsState::Closed => "Closed",
    }
}

// ------------------------------------------------------------------------------------------------
// the proxy

pub struct Proxy {
    pub state: Arc<parking_lot::Mutex<ProxyState>>,
    pub c_side: Arc<UdpSocket>, // faces the client endpoint
    pub s_side: Arc<UdpSocket>, // faces the server endpoint
    pub c_side_addr: SocketAddr,
    pub s_side_addr: SocketAddr,
    task: Option<JoinHandle<()>>,
}

impl Proxy {
    pub async fn bind(ops: Vec<Op>) -> anyhow::Result<Proxy> {
        let c_side = Arc::new(UdpSocket::bind("127.0.0.1:0").await?);
        let s_side = Arc::new(UdpSocket::bind("127.0.0.1:0").await?);
        Ok(Proxy {
            state: Arc::new(parking_lot::Mutex::new(ProxyState::new(ops))),
            c_side_addr: c_side.local_addr()?,
            s_side_addr: s_side.local_addr()?,
            c_side,
            s_side,
            task: None,
        })
    }

    /// Forward between `client` (endpoint socket address) and `server`, applying the schedule.
    pub fn start(&mut self, client: SocketAddr, server: SocketAddr) {
        let st = self.state.clone();
        let cs = self.c_side.clone();
        let ss = self.s_side.clone();
        self.task = Some(tokio::spawn(async move {
            let mut b1 = vec![0u8; 4096];
            let mut b2 = vec![0u8; 4096];
            loop {
                tokio::select! {
                    biased;
                    r = cs.recv_from(&mut b1) => {
                        let Ok((n, _)) = r else { break };
                        let (outs, rev) = { let mut g = st.lock(); let o = g.process("C>S", &b1[..n]); (o, std::mem::take(&mut g.reverse)) };
                        for o in outs { let _ = ss.send_to(&o, server).await; }
                        for (to, o) in rev { if to == "S>C" { let _ = cs.send_to(&o, client).await; } else { let _ = ss.send_to(&o, server).await; } }
                    }
                    r = ss.recv_from(&mut b2) => {
                        let Ok((n, _)) = r else { break };
                        let (outs, rev) = { let mut g = st.lock(); let o = g.process("S>C", &b2[..n]); (o, std::mem::take(&mut g.reverse)) };
                        for o in outs { let _ = cs.send_to(&o, client).await; }
                        for (to, o) in rev { if to == "S>C" { let _ = cs.send_to(&o, client).await; } else { let _ = ss.send_to(&o, server).await; } }
                    }
                }
            }
        }));
    }

    /// Send a datagram built by the harness as if it came from the peer (adversary injection).
    pub async fn inject(&self, dir: &str, d: &[u8], client: SocketAddr, server: SocketAddr) {
        net_event("inject", json!({"dir": dir, "msg": dgram_label(d), "recs": describe(d)}));
        if dir == "C>S" {
            let _ = self.s_side.send_to(d, server).await;
        } else {
            let _ = self.c_side.send_to(d, client).await;
        }
    }

    pub async fn shutdown(mut self) {
        if let Some(t) = self.task.take() {
            t.abort();
            let _ = t.await;
        }
    }
}
