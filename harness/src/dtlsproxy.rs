//! (stub; see lib.rs for the owner)
