//! Mini-stack: two real rustrtc endpoints (UdpSocket + own read loop -> IceConn -> DtlsTransport
//! -> SctpTransport + DataChannels) joined by a decrypting man-in-the-middle UDP proxy.
//!
//! Owner: SCTP checks (C01, C12, C13).  Public API of rustrtc only (plus the `verif` event sink).
//!
//! The proxy learns the record keys from `DtlsState::Connected(SessionCrypto, _)`, opens every
//! ApplicationData record, parses the SCTP packet with its own reader (own CRC32c), logs what it
//! saw (`net` events: the wire view used by the C13 rules) and applies a content-addressed fault
//! schedule: the n-th packet carrying a chunk of a given type in a given direction is dropped,
//! duplicated at once, taken aside and released after a later packet, or duplicated late.
//! Handshake records (epoch 0) are forwarded untouched.

use aes_gcm::aead::AeadInPlace;
use aes_gcm::{Nonce, Tag};
use bytes::Bytes;
use parking_lot::Mutex;
use rustrtc::RtcConfiguration;
use rustrtc::transports::PacketReceiver;
use rustrtc::transports::datachannel::{DataChannel, DataChannelConfig};
use rustrtc::transports::dtls::{self, DtlsState, DtlsTransport};
use rustrtc::transports::ice::IceSocketWrapper;
use rustrtc::transports::ice::conn::IceConn;
use rustrtc::transports::sctp::SctpTransport;
use serde_json::{Value, json};
use std::collections::HashMap;
use std::net::SocketAddr;
use std::sync::{Arc, Weak};
use std::time::Duration;
use tokio::net::UdpSocket;
use tokio::sync::mpsc;
use tokio::task::JoinHandle;

// ------------------------------------------------------------------------------------------
// SCTP reader of the harness (independent of the code under test)

pub const CT_DATA: u8 = 0;
pub const CT_INIT: u8 = 1;
pub const CT_INIT_ACK: u8 = 2;
pub const CT_SACK: u8 = 3;
pub const CT_HEARTBEAT: u8 = 4;
pub const CT_HEARTBEAT_ACK: u8 = 5;
pub const CT_COOKIE_ECHO: u8 = 10;
pub const CT_COOKIE_ACK: u8 = 11;
pub const CT_RECONFIG: u8 = 130;
pub const CT_FORWARD_TSN: u8 = 192;
/// fault addressing only: a SACK that carries at least one gap-ack block
pub const CT_GAP_SACK: u8 = 253;
/// fault addressing only: a SACK that advertises a receive window of zero
pub const CT_ZERO_SACK: u8 = 254;

/// CRC-32C (Castagnoli), bitwise-table implementation, reflected polynomial 0x82F63B78.
pub fn crc32c(data: &[u8]) -> u32 {
    static TABLE: std::sync::OnceLock<[u32; 256]> = std::sync::OnceLock::new();
    let t = TABLE.get_or_init(|| {
        let mut t = [0u32; 256];
        for i in 0..256u32 {
            let mut c = i;
            for _ in 0..8 {
                c = if c & 1 != 0 { (c >> 1) ^ 0x82F6_3B78 } else { c >> 1 };
            }
            t[i as usize] = c;
        }
        t
    });
    let mut c = 0xFFFF_FFFFu32;
    for &b in data {
        c = t[((c ^ b as u32) & 0xFF) as usize] ^ (c >> 8);
    }
    c ^ 0xFFFF_FFFF
}

#[derive(Clone, Debug, Default)]
pub struct ChunkView {
    pub ctype: u8,
    pub flags: u8,
    pub len: usize, // chunk length field
    pub tsn: Option<u32>,
    pub sid: Option<u16>,
    pub ssn: Option<u16>,
    pub ppid: Option<u32>,
    pub ulen: Option<usize>, // user data length
    pub cum: Option<u32>,
    pub rwnd: Option<u32>,
    pub gaps: Vec<(u16, u16)>,
    pub itag: Option<u32>,
    pub itsn: Option<u32>,
}

impl ChunkView {
    pub fn to_json(&self) -> Value {
        let mut m = serde_json::Map::new();
        m.insert("type".into(), self.ctype.into());
        m.insert("flags".into(), self.flags.into());
        m.insert("len".into(), self.len.into());
        if let Some(v) = self.tsn {
            m.insert("tsn".into(), v.into());
        }
        if let Some(v) = self.sid {
            m.insert("sid".into(), v.into());
        }
        if let Some(v) = self.ssn {
            m.insert("ssn".into(), v.into());
        }
        if let Some(v) = self.ppid {
            m.insert("ppid".into(), v.into());
        }
        if let Some(v) = self.ulen {
            m.insert("ulen".into(), v.into());
        }
        if let Some(v) = self.cum {
            m.insert("cum".into(), v.into());
        }
        if let Some(v) = self.rwnd {
            m.insert("rwnd".into(), v.into());
        }
        if self.ctype == CT_SACK {
            m.insert(
                "gaps".into(),
                self.gaps.iter().map(|(a, b)| json!([a, b])).collect::<Vec<_>>().into(),
            );
        }
        if let Some(v) = self.itag {
            m.insert("itag".into(), v.into());
        }
        if let Some(v) = self.itsn {
            m.insert("itsn".into(), v.into());
        }
        Value::Object(m)
    }
}

#[derive(Clone, Debug, Default)]
pub struct PacketView {
    pub len: usize,
    pub sport: u16,
    pub dport: u16,
    pub vtag: u32,
    pub crc_ok: bool,
    pub well_formed: bool, // chunk lengths add up exactly
    pub chunks: Vec<ChunkView>,
}

pub fn parse_sctp(p: &[u8]) -> PacketView {
    let mut v = PacketView { len: p.len(), ..Default::default() };
    if p.len() < 12 {
        return v;
    }
    v.sport = u16::from_be_bytes([p[0], p[1]]);
    v.dport = u16::from_be_bytes([p[2], p[3]]);
    v.vtag = u32::from_be_bytes([p[4], p[5], p[6], p[7]]);
    let stored = u32::from_le_bytes([p[8], p[9], p[10], p[11]]);
    let mut z = p.to_vec();
    z[8..12].fill(0);
    v.crc_ok = crc32c(&z) == stored;
    let be32 = |b: &[u8], o: usize| u32::from_be_bytes([b[o], b[o + 1], b[o + 2], b[o + 3]]);
    let be16 = |b: &[u8], o: usize| u16::from_be_bytes([b[o], b[o + 1]]);
    let mut o = 12;
    v.well_formed = true;
    while o < p.len() {
        if p.len() < o + 4 {
            v.well_formed = false;
            break;
        }
        let ctype = p[o];
        let flags = p[o + 1];
        let l = be16(p, o + 2) as usize;
        if l < 4 || p.len() < o + l {
            v.well_formed = false;
            break;
        }
        let b = &p[o + 4..o + l];
        let mut c = ChunkView { ctype, flags, len: l, ..Default::default() };
        match ctype {
            CT_DATA if b.len() >= 12 => {
                c.tsn = Some(be32(b, 0));
                c.sid = Some(be16(b, 4));
                c.ssn = Some(be16(b, 6));
                c.ppid = Some(be32(b, 8));
                c.ulen = Some(b.len() - 12);
            }
            CT_SACK if b.len() >= 12 => {
                c.cum = Some(be32(b, 0));
                c.rwnd = Some(be32(b, 4));
                let ng = be16(b, 8) as usize;
                for i in 0..ng {
                    let q = 12 + 4 * i;
                    if b.len() < q + 4 {
                        break;
                    }
                    c.gaps.push((be16(b, q), be16(b, q + 2)));
                }
            }
            CT_INIT | CT_INIT_ACK if b.len() >= 16 => {
                c.itag = Some(be32(b, 0));
                c.rwnd = Some(be32(b, 4));
                c.itsn = Some(be32(b, 12));
            }
            CT_FORWARD_TSN if b.len() >= 4 => {
                c.cum = Some(be32(b, 0));
            }
            _ => {}
        }
        v.chunks.push(c);
        o += l + (4 - (l % 4)) % 4;
    }
    // every chunk, the last one included, is padded to a multiple of four bytes
    if v.well_formed {
        v.well_formed = o == p.len();
    }
    v
}

// ------------------------------------------------------------------------------------------
// Fault schedule

#[derive(Clone, Debug, PartialEq)]
pub enum FaultKind {
    /// every transmission of the addressed DATA chunk is lost (content-addressed, persistent)
    DropAll,
    /// from the first transmission of the addressed chunk on, every packet of that direction that carries
    /// DATA is lost, until a retransmission of that chunk arrives (which passes and ends the outage)
    Outage,
    Drop,
    Dup,
    Hold,
    DupLate,
}

#[derive(Clone, Debug)]
pub struct Fault {
    pub dir: char, // sender side: 'A' (A>B) or 'B' (B>A)
    pub ctype: u8,
    pub ord: u32, // n-th packet of that direction carrying a chunk of `ctype` (1-based);
    // for DATA with `tsn_rel`: n-th transmission of that TSN
    pub tsn_rel: Option<u32>, // DATA only: TSN relative to the sender's initial TSN
    pub kind: FaultKind,
    pub after: Option<(u8, u32, Option<u32>)>, // release the copy right after this packet of the same direction
    pub used: bool,
}

pub fn ctype_of(name: &str) -> u8 {
    match name {
        "DATA" => CT_DATA,
        "INIT" => CT_INIT,
        "IACK" => CT_INIT_ACK,
        "SACK" => CT_SACK,
        "HB" => CT_HEARTBEAT,
        "HBACK" => CT_HEARTBEAT_ACK,
        "CECHO" => CT_COOKIE_ECHO,
        "CACK" => CT_COOKIE_ACK,
        "RECONFIG" => CT_RECONFIG,
        "FWD" => CT_FORWARD_TSN,
        "GSACK" => CT_GAP_SACK,
        "ZSACK" => CT_ZERO_SACK,
        other => other.parse::<u8>().unwrap_or_else(|_| panic!("bad chunk type {other}")),
    }
}

/// `{"dir":"A","k":"INIT","o":1,"kind":"duplate","ak":"DATA","ao":1}` (TLC's FaultRec)
pub fn fault_from_json(v: &Value) -> Fault {
    let kind = match v["kind"].as_str().unwrap_or("") {
        "drop" => FaultKind::Drop,
        "dropall" => FaultKind::DropAll,
        "outage" => FaultKind::Outage,
        "dup" => FaultKind::Dup,
        "hold" => FaultKind::Hold,
        "duplate" => FaultKind::DupLate,
        k => panic!("bad fault kind {k}"),
    };
    let after = match v["ak"].as_str() {
        Some("NONE") | None => None,
        Some(k) => {
            let t = ctype_of(k);
            // DATA: relative TSN; SACK: number of chunks it acknowledges cumulatively (0 = unknown)
            let rel = if t == CT_DATA || t == CT_SACK {
                v.get("at").and_then(|x| x.as_u64()).map(|x| x as u32).filter(|x| t == CT_DATA || *x > 0)
            } else {
                None
            };
            Some((t, v["ao"].as_u64().unwrap_or(0) as u32, rel))
        }
    };
    let ctype = ctype_of(v["k"].as_str().unwrap());
    Fault {
        dir: v["dir"].as_str().unwrap().chars().next().unwrap(),
        ctype,
        ord: v["o"].as_u64().unwrap() as u32,
        tsn_rel: if ctype == CT_DATA { v.get("t").and_then(|x| x.as_u64()).map(|x| x as u32) } else { None },
        kind,
        after,
        used: false,
    }
}

struct Held {
    fault_idx: usize,
    datagram: Vec<u8>,
    view: Value,
    dir: char,
    after: Option<(u8, u32, Option<u32>)>,
}

struct ProxyState {
    faults: Vec<Fault>,
    cnt: HashMap<(char, u8), u32>,
    cnt_tsn: HashMap<(char, u32), u32>, // transmissions seen per (direction, relative TSN)
    itsn: HashMap<char, u32>,           // initial TSN announced by each side (INIT / INIT-ACK)
    outage: HashMap<char, (u32, usize)>, // direction -> (relative TSN that ends it when retransmitted, fault index)
    held: Vec<Held>,
    next_id: u64,
    faults_applied: u32,
}

pub struct Proxy {
    pa: Arc<UdpSocket>, // faces endpoint A
    pb: Arc<UdpSocket>, // faces endpoint B
    addr_a: SocketAddr,
    addr_b: SocketAddr,
    state: Mutex<ProxyState>,
    dtls_a: Mutex<Option<Arc<DtlsTransport>>>,
    dtls_b: Mutex<Option<Arc<DtlsTransport>>>,
    max_hold: Duration,
}

impl Proxy {
    fn crypto(&self) -> Option<Arc<dtls::SessionCrypto>> {
        for d in [&self.dtls_a, &self.dtls_b] {
            if let Some(t) = d.lock().as_ref()
                && let DtlsState::Connected(c, _) = t.get_state()
            {
                return Some(c);
            }
        }
        None
    }

    /// Open one ApplicationData record sent by side `from` (A = DTLS client).
    fn open_record(&self, from: char, rec: &[u8]) -> Option<Vec<u8>> {
        if rec.len() < 13 + 8 + 16 || rec[0] != 23 {
            return None;
        }
        let epoch = u16::from_be_bytes([rec[3], rec[4]]);
        if epoch == 0 {
            return None;
        }
        let reclen = u16::from_be_bytes([rec[11], rec[12]]) as usize;
        if rec.len() < 13 + reclen || reclen < 24 {
            return None;
        }
        let crypto = self.crypto()?;
        let (cipher, iv) = if from == 'A' {
            (&crypto.client_write_cipher, &crypto.keys.client_write_iv)
        } else {
            (&crypto.server_write_cipher, &crypto.keys.server_write_iv)
        };
        let body = &rec[13..13 + reclen];
        let explicit = &body[..8];
        let ct = &body[8..reclen - 16];
        let tag = &body[reclen - 16..];
        let mut nonce = [0u8; 12];
        nonce[..4].copy_from_slice(iv);
        nonce[4..].copy_from_slice(explicit);
        let mut aad = [0u8; 13];
        aad[..8].copy_from_slice(&rec[3..11]); // epoch + 48-bit sequence number
        aad[8] = rec[0];
        aad[9] = rec[1];
        aad[10] = rec[2];
        aad[11..13].copy_from_slice(&(ct.len() as u16).to_be_bytes());
        let mut pt = ct.to_vec();
        cipher
            .decrypt_in_place_detached(Nonce::from_slice(&nonce), &aad, &mut pt, Tag::from_slice(tag))
            .ok()?;
        Some(pt)
    }

    async fn forward(&self, dir: char, datagram: &[u8]) {
        let (sock, to) = if dir == 'A' { (&self.pb, self.addr_b) } else { (&self.pa, self.addr_a) };
        let _ = sock.send_to(datagram, to).await;
    }

    /// EXT scenario "peer restart": hand `to`'s peer a fresh INIT (new initiate tag, new initial TSN) as if the
    /// other side had restarted its SCTP stack on the same DTLS association. The record is sealed with the
    /// sender's write key and a record sequence number far above the live ones.
    pub async fn forge_init(&self, from: char, itag: u32, itsn: u32) -> bool {
        let Some(crypto) = self.crypto() else { return false };
        let (cipher, iv) = if from == 'A' {
            (&crypto.client_write_cipher, &crypto.keys.client_write_iv)
        } else {
            (&crypto.server_write_cipher, &crypto.keys.server_write_iv)
        };
        // SCTP packet: common header (vtag 0) + INIT chunk
        let mut init = Vec::new();
        init.extend_from_slice(&itag.to_be_bytes());
        init.extend_from_slice(&(128u32 * 1024).to_be_bytes());
        init.extend_from_slice(&10u16.to_be_bytes());
        init.extend_from_slice(&10u16.to_be_bytes());
        init.extend_from_slice(&itsn.to_be_bytes());
        init.extend_from_slice(&[0xC0, 0x00, 0x00, 0x04]); // Forward-TSN supported
        let mut pkt = Vec::new();
        pkt.extend_from_slice(&5000u16.to_be_bytes());
        pkt.extend_from_slice(&5000u16.to_be_bytes());
        pkt.extend_from_slice(&0u32.to_be_bytes());
        pkt.extend_from_slice(&0u32.to_be_bytes());
        pkt.push(CT_INIT);
        pkt.push(0);
        pkt.extend_from_slice(&((4 + init.len()) as u16).to_be_bytes());
        pkt.extend_from_slice(&init);
        let crc = crc32c(&pkt);
        pkt[8..12].copy_from_slice(&crc.to_le_bytes());
        // DTLS 1.2 record, epoch 1
        let full_seq: u64 = (1u64 << 48) | (1u64 << 40) | (self.state.lock().next_id & 0xFFFF);
        let mut nonce = [0u8; 12];
        nonce[..4].copy_from_slice(iv);
        nonce[4..].copy_from_slice(&full_seq.to_be_bytes());
        let mut aad = [0u8; 13];
        aad[..8].copy_from_slice(&full_seq.to_be_bytes());
        aad[8] = 23;
        aad[9] = 254;
        aad[10] = 253;
        aad[11..13].copy_from_slice(&(pkt.len() as u16).to_be_bytes());
        let mut body = pkt.clone();
        let Ok(tag) = cipher.encrypt_in_place_detached(Nonce::from_slice(&nonce), &aad, &mut body) else { return false };
        let mut rec = vec![23u8, 254, 253];
        rec.extend_from_slice(&full_seq.to_be_bytes());
        rec.extend_from_slice(&((8 + body.len() + 16) as u16).to_be_bytes());
        rec.extend_from_slice(&full_seq.to_be_bytes());
        rec.extend_from_slice(&body);
        rec.extend_from_slice(&tag);
        rustrtc::verif::emit("net", "P", "forged", json!({"dir": from.to_string(), "what": "INIT", "itag": itag, "itsn": itsn}));
        self.forward(from, &rec).await;
        true
    }

    pub fn faults_pending(&self) -> usize {
        let st = self.state.lock();
        st.faults.iter().filter(|f| !f.used).count() + st.held.len()
    }
    pub fn held_count(&self) -> usize {
        self.state.lock().held.len()
    }
    pub fn faults_applied(&self) -> u32 {
        self.state.lock().faults_applied
    }

    /// Release everything still held (end of the fault phase).
    pub async fn flush(&self) {
        let held: Vec<Held> = std::mem::take(&mut self.state.lock().held);
        for h in held {
            self.emit_net(h.dir, "release", &h.view, Some(h.fault_idx), Some("flush"));
            self.forward(h.dir, &h.datagram).await;
        }
    }

    fn emit_net(&self, dir: char, act: &'static str, view: &Value, fault: Option<usize>, why: Option<&str>) {
        let mut m = view.as_object().cloned().unwrap_or_default();
        m.insert("dir".into(), dir.to_string().into());
        m.insert("act".into(), act.into());
        if let Some(f) = fault {
            m.insert("fault".into(), f.into());
        }
        if let Some(w) = why {
            m.insert("why".into(), w.into());
        }
        rustrtc::verif::emit("net", "P", "pkt", Value::Object(m));
    }

    async fn handle(self: &Arc<Self>, dir: char, datagram: Vec<u8>) {
        let Some(pt) = self.open_record(dir, &datagram) else {
            // handshake / alert / undecipherable: not a fault target
            self.forward(dir, &datagram).await;
            return;
        };
        let pv = parse_sctp(&pt);
        let mut types: Vec<u8> = pv.chunks.iter().map(|c| c.ctype).collect();
        if pv.chunks.iter().any(|c| c.ctype == CT_SACK && !c.gaps.is_empty()) {
            types.push(CT_GAP_SACK);
        }
        if pv.chunks.iter().any(|c| c.ctype == CT_SACK && c.rwnd == Some(0)) {
            types.push(CT_ZERO_SACK);
        }
        types.sort();
        types.dedup();
        // decide under the lock, act after releasing it
        let (view, action, fault_idx, releases) = {
            let mut st = self.state.lock();
            st.next_id += 1;
            let id = st.next_id;
            let mut ords = serde_json::Map::new();
            for t in &types {
                let c = st.cnt.entry((dir, *t)).or_insert(0);
                *c += 1;
                ords.insert(t.to_string(), (*c).into());
            }
            for c in &pv.chunks {
                if matches!(c.ctype, CT_INIT | CT_INIT_ACK)
                    && let Some(t) = c.itsn
                {
                    st.itsn.entry(dir).or_insert(t);
                }
            }
            // relative TSNs of the DATA chunks of this packet and how often each has been sent
            let base = st.itsn.get(&dir).copied();
            let mut rels: Vec<(u32, u32)> = Vec::new();
            if let Some(base) = base {
                for c in &pv.chunks {
                    if c.ctype == CT_DATA
                        && let Some(t) = c.tsn
                    {
                        let rel = t.wrapping_sub(base);
                        let n = st.cnt_tsn.entry((dir, rel)).or_insert(0);
                        *n += 1;
                        rels.push((rel, *n));
                    }
                }
            }
            // cumulative acknowledgement carried by a SACK of this packet, as a count of the peer's chunks
            let other = if dir == 'A' { 'B' } else { 'A' };
            let acked: Option<u32> = st.itsn.get(&other).copied().and_then(|b| {
                pv.chunks.iter().filter(|c| c.ctype == CT_SACK).filter_map(|c| c.cum).map(|c| c.wrapping_sub(b).wrapping_add(1)).next()
            });
            let hits = |ctype: u8, ord: u32, rel: Option<u32>, st: &ProxyState| -> bool {
                match (ctype, rel) {
                    (CT_DATA, Some(r)) => rels.iter().any(|(x, n)| *x == r && *n == ord),
                    // a SACK that acknowledges at least `r` chunks (release points only)
                    (CT_SACK, Some(r)) => acked.map(|a| (a.wrapping_sub(r) as i32) >= 0 && a < 0x8000_0000).unwrap_or(false),
                    _ => types.contains(&ctype) && st.cnt[&(dir, ctype)] == ord,
                }
            };
            let view = json!({
                "id": id, "len": pv.len, "crc_ok": pv.crc_ok, "well_formed": pv.well_formed,
                "vtag": pv.vtag, "sport": pv.sport, "dport": pv.dport, "ord": ords,
                "chunks": pv.chunks.iter().map(|c| c.to_json()).collect::<Vec<_>>(),
            });
            let mut hit = None;
            // a running outage: DATA is lost unless this packet retransmits the chunk the outage started with
            let mut outage_drop = None;
            if let Some((t, idx)) = st.outage.get(&dir).copied() {
                if rels.iter().any(|(x, n)| *x == t && *n >= 2) {
                    st.outage.remove(&dir);
                } else if !rels.is_empty() {
                    outage_drop = Some(idx);
                }
            }
            for (i, f) in st.faults.iter().enumerate() {
                if outage_drop.is_some() {
                    break;
                }
                let persistent = f.kind == FaultKind::DropAll
                    && f.dir == dir
                    && f.tsn_rel.map(|r| rels.iter().any(|(x, _)| *x == r)).unwrap_or(false);
                if persistent
                    || (!f.used && f.dir == dir && types.contains(&f.ctype) && hits(f.ctype, f.ord, f.tsn_rel, &st))
                {
                    hit = Some(i);
                    break;
                }
            }
            let mut action = "fwd";
            if let Some(idx) = outage_drop {
                action = "drop";
                hit = Some(idx);
            } else if let Some(i) = hit {
                st.faults[i].used = true;
                st.faults_applied += 1;
                let f = st.faults[i].clone();
                action = match f.kind {
                    FaultKind::Drop | FaultKind::DropAll | FaultKind::Outage => "drop",
                    FaultKind::Dup => "dup",
                    FaultKind::Hold => "hold",
                    FaultKind::DupLate => "duplate",
                };
                if f.kind == FaultKind::Outage {
                    st.outage.insert(dir, (f.tsn_rel.unwrap_or(0), i));
                }
                if matches!(f.kind, FaultKind::Hold | FaultKind::DupLate) {
                    st.held.push(Held { fault_idx: i, datagram: datagram.clone(), view: view.clone(), dir, after: f.after });
                }
            }
            // packets taken aside earlier whose release point is this packet (it is forwarded first)
            let mut releases = Vec::new();
            if action != "drop" && action != "hold" {
                let mut k = 0;
                while k < st.held.len() {
                    let h = &st.held[k];
                    let is_self = hit == Some(h.fault_idx);
                    let due = match h.after {
                        Some((t, o, rel)) => h.dir == dir && types.contains(&t) && hits(t, o, rel, &st),
                        None => false,
                    };
                    if due && !is_self {
                        releases.push(st.held.remove(k));
                    } else {
                        k += 1;
                    }
                }
            }
            (view, action, hit, releases)
        };
        self.emit_net(dir, action, &view, fault_idx, None);
        match action {
            "fwd" | "duplate" => self.forward(dir, &datagram).await,
            "dup" => {
                self.forward(dir, &datagram).await;
                self.emit_net(dir, "dupcopy", &view, fault_idx, None);
                self.forward(dir, &datagram).await;
            }
            _ => {}
        }
        if matches!(action, "hold" | "duplate") {
            // safety net: a release point that never comes must not turn a delay into a loss
            let me = self.clone();
            let idx = fault_idx.unwrap();
            let max_hold = self.max_hold;
            tokio::spawn(async move {
                tokio::time::sleep(max_hold).await;
                let h = {
                    let mut st = me.state.lock();
                    st.held.iter().position(|h| h.fault_idx == idx).map(|p| st.held.remove(p))
                };
                if let Some(h) = h {
                    me.emit_net(h.dir, "release", &h.view, Some(h.fault_idx), Some("timeout"));
                    me.forward(h.dir, &h.datagram).await;
                }
            });
        }
        for h in releases {
            self.emit_net(h.dir, "release", &h.view, Some(h.fault_idx), Some("after"));
            self.forward(h.dir, &h.datagram).await;
        }
    }
}

// ------------------------------------------------------------------------------------------
// Endpoints

#[derive(Clone, Debug)]
pub struct StackCfg {
    pub rto_initial_ms: u64,
    pub rto_min_ms: u64,
    pub rto_max_ms: u64,
    pub rwnd: usize,
    pub max_burst: usize,
    pub max_cwnd: usize,
    pub max_buffered: usize,
    pub max_tsn_retransmits: u32,
    pub heartbeat_ms: u64,
    pub init_tsn_a: Option<u32>,
    pub init_tsn_b: Option<u32>,
    pub max_hold_ms: u64,
    /// INIT collision: both endpoints act as SCTP clients (both send INIT), as browsers do
    pub both_init: bool,
}

impl Default for StackCfg {
    fn default() -> Self {
        Self {
            rto_initial_ms: 50,
            rto_min_ms: 50,
            rto_max_ms: 400,
            rwnd: 128 * 1024,
            max_burst: 0,
            max_cwnd: 256 * 1024,
            max_buffered: 256 * 1024,
            max_tsn_retransmits: 8,
            heartbeat_ms: 15_000,
            init_tsn_a: None,
            init_tsn_b: None,
            max_hold_ms: 300,
            both_init: false,
        }
    }
}

impl StackCfg {
    pub fn from_json(v: &Value) -> Self {
        let mut c = Self::default();
        let u = |k: &str| v.get(k).and_then(|x| x.as_u64());
        if let Some(x) = u("rto_initial_ms") {
            c.rto_initial_ms = x;
        }
        if let Some(x) = u("rto_min_ms") {
            c.rto_min_ms = x;
        }
        if let Some(x) = u("rto_max_ms") {
            c.rto_max_ms = x;
        }
        if let Some(x) = u("rwnd") {
            c.rwnd = x as usize;
        }
        if let Some(x) = u("max_burst") {
            c.max_burst = x as usize;
        }
        if let Some(x) = u("max_cwnd") {
            c.max_cwnd = x as usize;
        }
        if let Some(x) = u("max_buffered") {
            c.max_buffered = x as usize;
        }
        if let Some(x) = u("max_tsn_retransmits") {
            c.max_tsn_retransmits = x as u32;
        }
        if let Some(x) = u("heartbeat_ms") {
            c.heartbeat_ms = x;
        }
        if let Some(x) = u("init_tsn_a") {
            c.init_tsn_a = Some(x as u32);
        }
        if let Some(x) = u("init_tsn_b") {
            c.init_tsn_b = Some(x as u32);
        }
        if let Some(x) = u("max_hold_ms") {
            c.max_hold_ms = x;
        }
        if let Some(x) = v.get("both_init").and_then(|x| x.as_bool()) {
            c.both_init = x;
        }
        c
    }

    pub fn rtc(&self, label: &str) -> RtcConfiguration {
        let mut c = RtcConfiguration::default();
        c.label = Some(label.to_string());
        c.sctp_rto_initial = Duration::from_millis(self.rto_initial_ms);
        c.sctp_rto_min = Duration::from_millis(self.rto_min_ms);
        c.sctp_rto_max = Duration::from_millis(self.rto_max_ms);
        c.sctp_receive_window = self.rwnd;
        c.sctp_max_burst = self.max_burst;
        c.sctp_max_cwnd = self.max_cwnd;
        c.sctp_max_buffered_amount = self.max_buffered;
        c.sctp_max_tsn_retransmits = self.max_tsn_retransmits;
        c.sctp_heartbeat_interval = Duration::from_millis(self.heartbeat_ms);
        c
    }
}

#[derive(Clone, Debug)]
pub struct ChanSpec {
    pub sid: u16,
    pub ordered: bool,
    pub max_retransmits: Option<u16>,
    pub max_life_ms: Option<u16>,
    pub negotiated: bool,
    pub creator: char, // for in-band channels: which side creates it and sends DCEP OPEN
    pub label: String,
    pub protocol: String,
}

impl ChanSpec {
    pub fn from_json(v: &Value) -> Self {
        Self {
            sid: v["sid"].as_u64().unwrap() as u16,
            ordered: v["ordered"].as_bool().unwrap_or(true),
            max_retransmits: v.get("max_retransmits").and_then(|x| x.as_u64()).map(|x| x as u16),
            max_life_ms: v.get("max_life_ms").and_then(|x| x.as_u64()).map(|x| x as u16),
            negotiated: v["negotiated"].as_bool().unwrap_or(true),
            creator: v.get("creator").and_then(|x| x.as_str()).and_then(|s| s.chars().next()).unwrap_or('A'),
            label: v.get("label").and_then(|x| x.as_str()).unwrap_or("").to_string(),
            protocol: v.get("protocol").and_then(|x| x.as_str()).unwrap_or("").to_string(),
        }
    }
    pub fn config(&self) -> DataChannelConfig {
        DataChannelConfig {
            label: self.label.clone(),
            protocol: self.protocol.clone(),
            ordered: self.ordered,
            max_retransmits: self.max_retransmits,
            max_packet_life_time: self.max_life_ms,
            max_payload_size: None,
            negotiated: if self.negotiated { Some(self.sid) } else { None },
        }
    }
}

pub struct Endpoint {
    pub name: char,
    pub sock: Arc<UdpSocket>,
    pub conn: Arc<IceConn>,
    pub dtls: Arc<DtlsTransport>,
    pub sctp: Arc<SctpTransport>,
    pub chans: Arc<Mutex<Vec<Weak<DataChannel>>>>,
    pub local: Vec<Arc<DataChannel>>, // channels created locally (negotiated, or in-band by this side)
    pub new_dc_rx: Option<mpsc::UnboundedReceiver<Arc<DataChannel>>>,
    pub tasks: Vec<JoinHandle<()>>,
}

pub struct Pair {
    pub a: Endpoint,
    pub b: Endpoint,
    pub proxy: Arc<Proxy>,
    pub proxy_tasks: Vec<JoinHandle<()>>,
}

impl Pair {
    pub fn ep(&self, name: char) -> &Endpoint {
        if name == 'A' { &self.a } else { &self.b }
    }
    pub fn ep_mut(&mut self, name: char) -> &mut Endpoint {
        if name == 'A' { &mut self.a } else { &mut self.b }
    }
    /// Stop every task of the pair.
    pub fn shutdown(&mut self) {
        self.a.sctp.close();
        self.b.sctp.close();
        self.a.dtls.close();
        self.b.dtls.close();
        for t in self.a.tasks.drain(..).chain(self.b.tasks.drain(..)).chain(self.proxy_tasks.drain(..)) {
            t.abort();
        }
    }
}

async fn bind() -> Arc<UdpSocket> {
    Arc::new(UdpSocket::bind("127.0.0.1:0").await.expect("bind loopback"))
}

async fn build_endpoint(
    name: char,
    sock: Arc<UdpSocket>,
    remote: SocketAddr,
    cert: dtls::Certificate,
    peer_fp: String,
    cfg: &StackCfg,
    chans: &[ChanSpec],
) -> Endpoint {
    let is_client = name == 'A';
    let (_sock_tx, sock_rx) = tokio::sync::watch::channel(Some(IceSocketWrapper::Udp(sock.clone())));
    // keep the sender alive for the lifetime of the endpoint (a closed watch still yields its value,
    // but do not depend on that)
    let sock_tx_keep = _sock_tx;
    let conn = IceConn::new(sock_rx, remote, Some(name.to_string()));
    let (dtls, incoming_rx, dtls_runner) = DtlsTransport::new(conn.clone(), cert, is_client, 2048, Some(peer_fp))
        .await
        .expect("DtlsTransport::new");
    let mut tasks = Vec::new();
    // The DTLS receiver is registered inside DtlsTransport::new: only now may the socket loop start.
    tasks.push(tokio::spawn(dtls_runner));
    {
        let sock = sock.clone();
        let conn = conn.clone();
        tasks.push(tokio::spawn(async move {
            let _keep = sock_tx_keep;
            let mut buf = vec![0u8; 4096];
            let mut marshal = Vec::new();
            loop {
                match sock.recv_from(&mut buf).await {
                    Ok((n, from)) => {
                        conn.receive(Bytes::copy_from_slice(&buf[..n]), from, &mut marshal).await;
                    }
                    Err(_) => break,
                }
            }
        }));
    }
    let list: Arc<Mutex<Vec<Weak<DataChannel>>>> = Arc::new(Mutex::new(Vec::new()));
    let mut local = Vec::new();
    for c in chans {
        if c.negotiated || c.creator == name {
            let dc = Arc::new(DataChannel::new(c.sid, c.config()));
            list.lock().push(Arc::downgrade(&dc));
            local.push(dc);
        }
    }
    let (dc_tx, dc_rx) = mpsc::unbounded_channel();
    let rtc = cfg.rtc(&name.to_string());
    let sctp_client = is_client || cfg.both_init;
    let (sctp, runner) = SctpTransport::new(dtls.clone(), incoming_rx, list.clone(), 5000, 5000, Some(dc_tx), sctp_client, &rtc);
    tasks.push(tokio::spawn(runner));
    Endpoint { name, sock, conn, dtls, sctp, chans: list, local, new_dc_rx: Some(dc_rx), tasks }
}

/// Build A (DTLS/SCTP client) and B (server) joined by the proxy; the association starts at once.
pub async fn build_pair(cfg: &StackCfg, chans: &[ChanSpec], faults: Vec<Fault>) -> Pair {
    rustrtc::verif::set_override("sctp_inst_by_label", Some(1));
    rustrtc::verif::set_override("sctp_initial_tsn_client", cfg.init_tsn_a.map(|v| v as i64));
    rustrtc::verif::set_override("sctp_initial_tsn_server", cfg.init_tsn_b.map(|v| v as i64));
    let sa = bind().await;
    let sb = bind().await;
    let pa = bind().await;
    let pb = bind().await;
    let proxy = Arc::new(Proxy {
        pa: pa.clone(),
        pb: pb.clone(),
        addr_a: sa.local_addr().unwrap(),
        addr_b: sb.local_addr().unwrap(),
        state: Mutex::new(ProxyState {
            faults,
            cnt: HashMap::new(),
            cnt_tsn: HashMap::new(),
            itsn: HashMap::new(),
            outage: HashMap::new(),
            held: Vec::new(),
            next_id: 0,
            faults_applied: 0,
        }),
        dtls_a: Mutex::new(None),
        dtls_b: Mutex::new(None),
        max_hold: Duration::from_millis(cfg.max_hold_ms),
    });
    let mut proxy_tasks = Vec::new();
    for (dir, sock) in [('A', pa.clone()), ('B', pb.clone())] {
        let p = proxy.clone();
        proxy_tasks.push(tokio::spawn(async move {
            let mut buf = vec![0u8; 4096];
            loop {
                match sock.recv_from(&mut buf).await {
                    Ok((n, _)) => p.handle(dir, buf[..n].to_vec()).await,
                    Err(_) => break,
                }
            }
        }));
    }
    let cert_a = dtls::generate_certificate().expect("cert");
    let cert_b = dtls::generate_certificate().expect("cert");
    let fp_a = dtls::fingerprint(&cert_a);
    let fp_b = dtls::fingerprint(&cert_b);
    // server first so that it is listening when the client's first flight arrives
    let b = build_endpoint('B', sb, pb.local_addr().unwrap(), cert_b, fp_a, cfg, chans).await;
    let a = build_endpoint('A', sa, pa.local_addr().unwrap(), cert_a, fp_b, cfg, chans).await;
    *proxy.dtls_a.lock() = Some(a.dtls.clone());
    *proxy.dtls_b.lock() = Some(b.dtls.clone());
    Pair { a, b, proxy, proxy_tasks }
}
