//! pc-pair: two `PeerConnection`s signalled in-process on loopback (owner: C17 / C10).
//!
//! * `PairCfg`   - the configuration record of DESIGN C10 (one per TLC-enumerated lattice point)
//! * `Pair`      - both endpoints, their data channel / tracks, staged signalling
//! * observers   - tasks that copy the public watch channels into the process-wide event log
//!                 (`comp:"watch"`), so hook events and API-visible states share one total order
//! * resources   - alive tokio tasks and socket descriptors of this process
//!
//! Everything here uses the public API of rustrtc only (plus `rustrtc::verif` for logging).

use bytes::Bytes;
use rustrtc::media::MediaStreamTrack;
use rustrtc::media::frame::{AudioFrame, MediaKind as FrameKind, MediaSample, VideoFrame};
use rustrtc::media::track::{SampleStreamSource, SampleStreamTrack};
use rustrtc::transports::sctp::DataChannel;
use rustrtc::{
    BundlePolicy, DataChannelEvent, DisconnectReason, IceTcpPolicy, MediaKind, PeerConnection,
    PeerConnectionEvent, PeerConnectionState, RtcConfiguration, RtcpMuxPolicy, RtpCodecParameters,
    SdpCompatibilityMode, SessionDescription, TransportMode,
};
use serde_json::{Value, json};
use std::sync::Arc;
use std::sync::atomic::{AtomicBool, AtomicU64, Ordering};
use std::time::{Duration, Instant};

// --------------------------------------------------------------------------- configuration

#[derive(Clone, Debug)]
pub struct PairCfg {
    pub mode: String,   // WebRtc | Srtp | Rtp
    pub dc: bool,       // data channel (WebRtc only)
    pub audio: bool,
    pub video: bool,
    pub bundle: String, // balanced | maxbundle | maxcompat
    pub mux: String,    // require | negotiate
    pub ice: String,    // full | liteA | liteB | tcp | udpmux
    pub latching: bool,
    pub compat: String,  // Standard | LegacySip
    pub offerer: String, // A | B
    /// plain | slowSetRemote (the offerer's set_remote_description task is held after it started ICE)
    pub sched: String,
    /// none | offerer | answerer: who starts a second offer/answer round on the established connection
    pub reneg: String,
    /// per-side values of the options that need not match between the endpoints ("" / None = same as side A)
    pub mux_b: String,
    pub compat_b: String,
    pub latching_b: Option<bool>,
    /// short failure-detection timers (C17 loss scenarios); None = library defaults
    pub fast_timers: bool,
    /// small SCTP send buffer so that a sender can be blocked (BlockedSender scenarios)
    pub small_sctp_buffer: bool,
    /// short ICE disconnect threshold / grace with the slow fallbacks (ICE connection timeout, SCTP heartbeat
    /// limit) left far away: scenarios with a recoverable blackout
    pub flap_timers: bool,
}

impl Default for PairCfg {
    fn default() -> Self {
        PairCfg {
            mode: "WebRtc".into(),
            dc: true,
            audio: false,
            video: false,
            bundle: "balanced".into(),
            mux: "require".into(),
            ice: "full".into(),
            latching: false,
            compat: "Standard".into(),
            offerer: "A".into(),
            sched: "plain".into(),
            reneg: "none".into(),
            mux_b: String::new(),
            compat_b: String::new(),
            latching_b: None,
            fast_timers: false,
            small_sctp_buffer: false,
            flap_timers: false,
        }
    }
}

impl PairCfg {
    pub fn from_json(v: &Value) -> Self {
        let mut c = PairCfg::default();
        let s = |k: &str, d: &str| v.get(k).and_then(|x| x.as_str()).unwrap_or(d).to_string();
        let b = |k: &str, d: bool| v.get(k).and_then(|x| x.as_bool()).unwrap_or(d);
        c.mode = s("mode", &c.mode);
        if let Some(m) = v.get("media").and_then(|m| m.as_array()) {
            let has = |n: &str| m.iter().any(|x| x.as_str() == Some(n));
            c.dc = has("dc");
            c.audio = has("audio");
            c.video = has("video");
        } else {
            c.dc = b("dc", c.dc);
            c.audio = b("audio", c.audio);
            c.video = b("video", c.video);
        }
        c.bundle = s("bundle", &c.bundle);
        c.mux = s("mux", &c.mux);
        c.ice = s("ice", &c.ice);
        c.latching = b("latching", c.latching);
        c.compat = s("compat", &c.compat);
        c.offerer = s("offerer", &c.offerer);
        c.sched = s("sched", &c.sched);
        c.reneg = s("reneg", &c.reneg);
        // per-side form of the record: muxA/muxB, compatA/compatB, latchingA/latchingB
        if v.get("muxA").is_some() {
            c.mux = s("muxA", &c.mux);
            c.mux_b = s("muxB", &c.mux);
        }
        if v.get("compatA").is_some() {
            c.compat = s("compatA", &c.compat);
            c.compat_b = s("compatB", &c.compat);
        }
        if v.get("latchingA").is_some() {
            c.latching = b("latchingA", c.latching);
            c.latching_b = Some(b("latchingB", c.latching));
        }
        c.fast_timers = b("fast_timers", c.fast_timers);
        c.small_sctp_buffer = b("small_sctp_buffer", c.small_sctp_buffer);
        c.flap_timers = b("flap_timers", c.flap_timers);
        c
    }

    pub fn to_json(&self) -> Value {
        let mut media = vec![];
        if self.dc {
            media.push("dc");
        }
        if self.audio {
            media.push("audio");
        }
        if self.video {
            media.push("video");
        }
        json!({"mode": self.mode, "media": media, "bundle": self.bundle, "mux": self.mux, "ice": self.ice,
               "latching": self.latching, "compat": self.compat, "offerer": self.offerer, "sched": self.sched, "reneg": self.reneg,
               "muxA": self.mux, "muxB": if self.mux_b.is_empty() { &self.mux } else { &self.mux_b },
               "compatA": self.compat, "compatB": if self.compat_b.is_empty() { &self.compat } else { &self.compat_b },
               "latchingA": self.latching, "latchingB": self.latching_b.unwrap_or(self.latching),
               "fast_timers": self.fast_timers, "small_sctp_buffer": self.small_sctp_buffer})
    }

    pub fn transport_mode(&self) -> TransportMode {
        match self.mode.as_str() {
            "Srtp" => TransportMode::Srtp,
            "Rtp" => TransportMode::Rtp,
            _ => TransportMode::WebRtc,
        }
    }

    /// `RtcConfiguration` of one side. `mux_port` is a free UDP port chosen by the caller for
    /// the single-port mux variant.
    pub fn rtc_config(&self, side: &str, mux_port: u16) -> RtcConfiguration {
        let mut c = RtcConfiguration::default();
        c.label = Some(side.to_string());
        c.transport_mode = self.transport_mode();
        c.bundle_policy = match self.bundle.as_str() {
            "maxbundle" => BundlePolicy::MaxBundle,
            "maxcompat" => BundlePolicy::MaxCompat,
            _ => BundlePolicy::Balanced,
        };
        let mux = if side == "B" && !self.mux_b.is_empty() { &self.mux_b } else { &self.mux };
        let compat = if side == "B" && !self.compat_b.is_empty() { &self.compat_b } else { &self.compat };
        let latching = if side == "B" { self.latching_b.unwrap_or(self.latching) } else { self.latching };
        c.rtcp_mux_policy = if mux == "negotiate" {
            RtcpMuxPolicy::Negotiate
        } else {
            RtcpMuxPolicy::Require
        };
        c.sdp_compatibility = if compat == "LegacySip" {
            SdpCompatibilityMode::LegacySip
        } else {
            SdpCompatibilityMode::Standard
        };
        c.enable_latching = latching;
        c.bind_ip = Some("127.0.0.1".into());
        c.disable_ipv6 = true;
        // per-side ICE options: "full" | "liteA" | "liteB" | "tcp" | "udpmux" (answerer) and the combined forms
        //   "udpmuxA" / "udpmuxB" / "udpmuxAB" / "liteA+udpmuxB" / "liteB+udpmuxA"
        //   "tcpActive+tcp": the offerer has TCP enabled next to its UDP hosts, the answerer is TCP-only and listens
        let ice = self.ice.as_str();
        if ice.contains("udpmux") && ice != "udpmux" {
            if ice.contains("lite") {
                c.enable_ice_lite = (ice.starts_with("liteA") && side == "A") || (ice.starts_with("liteB") && side == "B");
            }
            let mux_here = ice.ends_with("udpmuxAB") || ice.ends_with(&format!("udpmux{side}"));
            if mux_here {
                c.ice_udp_mux = true;
                c.ice_udp_mux_port = Some(mux_port);
            }
        }
        if ice == "full+tcpOnlyListen" && side != self.offerer {
            // (diagnostic only, outside Compatible: the offerer has ICE-TCP disabled, so there is no common transport)
            c.ice_tcp_policy = IceTcpPolicy::Enabled;
            c.ice_gather_udp_hosts = false;
            c.tcp_port_range_start = Some(mux_port.max(20000));
            c.tcp_port_range_end = Some(mux_port.max(20000).saturating_add(8));
        }
        if ice == "tcpActive+tcp" {
            c.ice_tcp_policy = IceTcpPolicy::Enabled;
            if side != self.offerer {
                c.ice_gather_udp_hosts = false;
                c.tcp_port_range_start = Some(mux_port);
                c.tcp_port_range_end = Some(mux_port.saturating_add(8));
            }
        }
        match ice {
            "liteA" => c.enable_ice_lite = side == "A",
            "liteB" => c.enable_ice_lite = side == "B",
            "tcp" => {
                // RFC 6544 as the library's own end-to-end test sets it up: no UDP host candidates,
                // the answerer (controlled) listens on a TCP port range, the offerer connects actively
                c.ice_tcp_policy = IceTcpPolicy::Enabled;
                c.ice_gather_udp_hosts = false;
                if side != self.offerer {
                    c.tcp_port_range_start = Some(mux_port);
                    c.tcp_port_range_end = Some(mux_port.saturating_add(8));
                }
            }
            "udpmux" => {
                // the answerer side plays the single-port server
                if side != self.offerer {
                    c.ice_udp_mux = true;
                    c.ice_udp_mux_port = Some(mux_port);
                }
            }
            _ => {}
        }
        // Connectivity-check transactions hold their socket until they time out; keep those timers
        // short so that "released within bounded time" can be decided with a short deadline
        // (deadline >= 20 x these timers, see life.rs).
        c.stun_timeout = Duration::from_millis(400);
        c.nomination_timeout = Duration::from_millis(400);
        if self.fast_timers {
            // the keepalive period of the ICE agent is 1 s: anything below ~2 s flaps on a healthy link
            c.ice_disconnect_threshold = Duration::from_millis(2500);
            c.ice_connection_timeout = Duration::from_millis(4000);
            c.ice_disconnect_grace = Duration::from_millis(300);
            c.sctp_heartbeat_interval = Duration::from_millis(200);
            c.sctp_rto_initial = Duration::from_millis(200);
            c.sctp_rto_min = Duration::from_millis(100);
            c.sctp_rto_max = Duration::from_millis(400);
            c.sctp_max_association_retransmits = 4;
            c.sctp_max_heartbeat_failures = 2;
        }
        if self.flap_timers {
            c.ice_disconnect_threshold = Duration::from_millis(2500);
            c.ice_disconnect_grace = Duration::from_millis(2500);
            c.ice_connection_timeout = Duration::from_secs(90);
        }
        if self.small_sctp_buffer {
            c.sctp_max_buffered_amount = 8 * 1024;
        }
        c
    }
}

// --------------------------------------------------------------------------- logging

pub fn log(comp: &'static str, inst: &str, ev: &'static str, fields: Value) {
    rustrtc::verif::emit(comp, inst, ev, fields);
}

pub fn reason_name(r: &Option<DisconnectReason>) -> &'static str {
    match r {
        None => "None",
        Some(DisconnectReason::LocalClose) => "LocalClose",
        Some(DisconnectReason::Dropped) => "Dropped",
        Some(DisconnectReason::IceFailed) => "IceFailed",
        Some(DisconnectReason::IceDisconnected) => "IceDisconnected",
        Some(DisconnectReason::DtlsFailed) => "DtlsFailed",
        Some(DisconnectReason::DtlsClosed) => "DtlsClosed",
        Some(DisconnectReason::SctpHeartbeatTimeout) => "SctpHeartbeatTimeout",
        Some(DisconnectReason::SctpPeerDead) => "SctpPeerDead",
        Some(DisconnectReason::SctpRemoteAbort) => "SctpRemoteAbort",
        Some(DisconnectReason::SctpRemoteShutdown) => "SctpRemoteShutdown",
        Some(DisconnectReason::TransportStartFailed(_)) => "TransportStartFailed",
        Some(DisconnectReason::Unknown(_)) => "Unknown",
    }
}

/// Observers hold only the watch receivers (never the PeerConnection), so they do not keep the
/// connection alive; they end when the senders are dropped with the connection.
pub struct Watchers {
    handles: Vec<tokio::task::JoinHandle<()>>,
}

impl Watchers {
    pub fn spawn(pc: &PeerConnection, label: &str) -> Self {
        let mut handles = vec![];
        let l = label.to_string();
        let mut rx = pc.subscribe_peer_state();
        handles.push(tokio::spawn(async move {
            loop {
                let v = format!("{:?}", *rx.borrow_and_update());
                log("watch", &l, "peer", json!({"v": v}));
                if rx.changed().await.is_err() {
                    break;
                }
            }
        }));
        let l = label.to_string();
        let mut rx = pc.subscribe_signaling_state();
        handles.push(tokio::spawn(async move {
            loop {
                let v = format!("{:?}", *rx.borrow_and_update());
                log("watch", &l, "sig", json!({"v": v}));
                if rx.changed().await.is_err() {
                    break;
                }
            }
        }));
        let l = label.to_string();
        let mut rx = pc.subscribe_disconnect_reason();
        handles.push(tokio::spawn(async move {
            loop {
                let v = reason_name(&rx.borrow_and_update().clone());
                log("watch", &l, "reason", json!({"v": v}));
                if rx.changed().await.is_err() {
                    break;
                }
            }
        }));
        let l = label.to_string();
        let mut rx = pc.subscribe_ice_connection_state();
        handles.push(tokio::spawn(async move {
            loop {
                let v = format!("{:?}", *rx.borrow_and_update());
                log("watch", &l, "ice", json!({"v": v}));
                if rx.changed().await.is_err() {
                    break;
                }
            }
        }));
        Watchers { handles }
    }
    pub fn stop(self) {
        for h in self.handles {
            h.abort();
        }
    }
}

// --------------------------------------------------------------------------- one endpoint

pub struct MediaLeg {
    pub kind: MediaKind,
    pub source: Arc<SampleStreamSource>,
    pub _local_track: Arc<SampleStreamTrack>,
}

pub struct Side {
    pub label: String,
    /// the application's handle; `take()` = the application drops the connection
    pub pc: parking_lot::Mutex<Option<PeerConnection>>,
    /// receivers subscribed at creation: readable after the connection is dropped, and they do
    /// not keep it alive
    pub peer_rx: tokio::sync::watch::Receiver<PeerConnectionState>,
    pub sig_rx: tokio::sync::watch::Receiver<rustrtc::SignalingState>,
    pub reason_rx: tokio::sync::watch::Receiver<Option<DisconnectReason>>,
    pub dc: parking_lot::Mutex<Option<Arc<DataChannel>>>,
    pub legs: Vec<MediaLeg>,
    /// per data channel: was Open observed, number of Close events, messages received
    pub dc_open: Arc<AtomicBool>,
    pub dc_closes: Arc<AtomicU64>,
    /// the reader task's `recv()` loop on the data channel has ended (stream end)
    pub dc_ended: Arc<AtomicBool>,
    pub dc_msgs: Arc<parking_lot::Mutex<Vec<Vec<u8>>>>,
    pub rtp_rx: Arc<parking_lot::Mutex<Vec<(String, Vec<u8>)>>>,
    pub aux: parking_lot::Mutex<Vec<tokio::task::JoinHandle<()>>>,
    pub watchers: parking_lot::Mutex<Option<Watchers>>,
}

fn codec(kind: MediaKind) -> RtpCodecParameters {
    match kind {
        MediaKind::Audio => RtpCodecParameters {
            payload_type: 111,
            name: "opus".into(),
            clock_rate: 48000,
            channels: 2,
        },
        _ => RtpCodecParameters {
            payload_type: 96,
            name: "VP8".into(),
            clock_rate: 90000,
            channels: 0,
        },
    }
}

impl Side {
    pub fn new(label: &str, cfg: &PairCfg, mux_port: u16) -> Self {
        Self::new_on(label, cfg, mux_port, None)
    }

    /// `handle`: runtime on which ALL internal tasks of this connection run (RtcConfiguration::runtime_handle),
    /// e.g. a single-worker runtime that the harness can freeze to play a blackout of this endpoint.
    pub fn new_on(label: &str, cfg: &PairCfg, mux_port: u16, handle: Option<tokio::runtime::Handle>) -> Self {
        let mut rc = cfg.rtc_config(label, mux_port);
        rc.runtime_handle = handle;
        let pc = PeerConnection::new(rc);
        let mut legs = vec![];
        for (on, kind, fk) in [
            (cfg.audio, MediaKind::Audio, FrameKind::Audio),
            (cfg.video, MediaKind::Video, FrameKind::Video),
        ] {
            if on {
                let (source, track, _fb) = rustrtc::media::track::sample_track(fk, 64);
                let source = Arc::new(source);
                let _ = pc.add_track(track.clone(), codec(kind));
                legs.push(MediaLeg {
                    kind,
                    source,
                    _local_track: track,
                });
            }
        }
        let watchers = Watchers::spawn(&pc, label);
        Side {
            label: label.to_string(),
            peer_rx: pc.subscribe_peer_state(),
            sig_rx: pc.subscribe_signaling_state(),
            reason_rx: pc.subscribe_disconnect_reason(),
            pc: parking_lot::Mutex::new(Some(pc)),
            dc: parking_lot::Mutex::new(None),
            legs,
            dc_open: Arc::new(AtomicBool::new(false)),
            dc_closes: Arc::new(AtomicU64::new(0)),
            dc_ended: Arc::new(AtomicBool::new(false)),
            dc_msgs: Arc::new(parking_lot::Mutex::new(vec![])),
            rtp_rx: Arc::new(parking_lot::Mutex::new(vec![])),
            aux: parking_lot::Mutex::new(vec![]),
            watchers: parking_lot::Mutex::new(Some(watchers)),
        }
    }

    /// A temporary clone of the application's handle (drop it promptly). None once dropped.
    pub fn try_pc(&self) -> Option<PeerConnection> {
        self.pc.lock().clone()
    }
    pub fn pc(&self) -> PeerConnection {
        self.try_pc().expect("pc dropped")
    }
    pub fn close(&self) -> bool {
        // a short-lived clone: the handle mutex must not be held while close() runs (close() can block on a
        // lock of the connection, and other harness threads need the handle meanwhile)
        let pc = self.pc.lock().clone();
        match pc {
            Some(pc) => {
                pc.close();
                true
            }
            None => false,
        }
    }
    /// The application drops its handle.
    pub fn drop_pc(&self) -> bool {
        let pc = self.pc.lock().take();
        pc.is_some()
    }
    pub fn reason(&self) -> &'static str {
        reason_name(&self.reason_rx.borrow().clone())
    }
    pub fn sig_state(&self) -> String {
        format!("{:?}", *self.sig_rx.borrow())
    }

    /// Reader task of one data channel: logs Open / Message / Close as `app` events and counts them.
    /// Holds the channel, not the connection.
    pub fn attach_dc(&self, dc: Arc<DataChannel>) {
        *self.dc.lock() = Some(dc.clone());
        let ended = self.dc_ended.clone();
        let (open, closes, msgs, l) = (
            self.dc_open.clone(),
            self.dc_closes.clone(),
            self.dc_msgs.clone(),
            self.label.clone(),
        );
        let h = tokio::spawn(async move {
            while let Some(ev) = dc.recv().await {
                match ev {
                    DataChannelEvent::Open => {
                        open.store(true, Ordering::SeqCst);
                        log("app", &l, "dc_open", json!({"sid": dc.id}));
                    }
                    DataChannelEvent::Message(m) => {
                        log("app", &l, "dc_msg", json!({"sid": dc.id, "len": m.len(), "h": rustrtc::verif::hash32(&m)}));
                        msgs.lock().push(m.to_vec());
                    }
                    DataChannelEvent::Close => {
                        closes.fetch_add(1, Ordering::SeqCst);
                        log("app", &l, "dc_close", json!({"sid": dc.id}));
                    }
                }
            }
            log("app", &l, "dc_end", json!({"sid": dc.id}));
            ended.store(true, Ordering::SeqCst);
        });
        self.aux.lock().push(h);
    }

    /// Event pump: incoming data channels and tracks announced by the connection. Holds a clone of
    /// the PeerConnection handle only while polling `recv()`; aborted by `release()`.
    pub fn start_event_pump(self: &Arc<Self>) {
        let me = self.clone();
        let pc = self.pc();
        let h = tokio::spawn(async move {
            while let Some(ev) = pc.recv().await {
                match ev {
                    PeerConnectionEvent::DataChannel(dc) => {
                        log("app", &me.label, "dc_incoming", json!({"sid": dc.id}));
                        me.attach_dc(dc);
                    }
                    PeerConnectionEvent::Track(t) => {
                        let kind = format!("{:?}", t.kind());
                        log("app", &me.label, "track", json!({"kind": kind}));
                        if let Some(r) = t.receiver() {
                            let track = r.track();
                            let (rx, l) = (me.rtp_rx.clone(), me.label.clone());
                            let k = kind.clone();
                            let h2 = tokio::spawn(async move {
                                while let Ok(s) = track.recv().await {
                                    let data = match s {
                                        MediaSample::Audio(f) => f.data,
                                        MediaSample::Video(f) => f.data,
                                    };
                                    log("app", &l, "rtp_rx", json!({"kind": k, "len": data.len(), "h": rustrtc::verif::hash32(&data)}));
                                    rx.lock().push((k.clone(), data.to_vec()));
                                }
                                log("app", &l, "track_end", json!({"kind": k}));
                            });
                            me.aux.lock().push(h2);
                        }
                    }
                }
            }
        });
        self.aux.lock().push(h);
    }

    pub fn send_media(&self, kind: MediaKind, payload: &[u8], ts: u32) -> bool {
        for leg in &self.legs {
            if leg.kind == kind {
                let s = match kind {
                    MediaKind::Audio => MediaSample::Audio(AudioFrame {
                        rtp_timestamp: ts,
                        clock_rate: 48000,
                        data: Bytes::copy_from_slice(payload),
                        ..Default::default()
                    }),
                    _ => MediaSample::Video(VideoFrame {
                        rtp_timestamp: ts,
                        data: Bytes::copy_from_slice(payload),
                        is_last_packet: true,
                        ..Default::default()
                    }),
                };
                return leg.source.send(s).is_ok();
            }
        }
        false
    }

    pub fn peer_state(&self) -> Option<PeerConnectionState> {
        Some(*self.peer_rx.borrow())
    }

    /// Stop the harness's own helper tasks for this side (not the connection's).
    pub fn release_aux(&self) {
        for h in self.aux.lock().drain(..) {
            h.abort();
        }
        if let Some(w) = self.watchers.lock().take() {
            w.stop();
        }
    }
}

// --------------------------------------------------------------------------- the pair

pub struct Pair {
    pub cfg: PairCfg,
    pub a: Arc<Side>,
    pub b: Arc<Side>,
}

pub fn free_udp_port() -> u16 {
    // A port for a single-port UDP mux socket, which the library binds some time after this probe. It is taken
    // from below the ephemeral range (32768..), in a stripe of this process, so that no bind(0) of one of the
    // harness processes running in parallel can be given the port in between (seen as rare "never connected").
    static NEXT: std::sync::atomic::AtomicU32 = std::sync::atomic::AtomicU32::new(0);
    let stripe = 10000 + (std::process::id() % 32) as u16 * 680;
    for _ in 0..680 {
        let p = stripe + (NEXT.fetch_add(1, std::sync::atomic::Ordering::Relaxed) % 680) as u16;
        if std::net::UdpSocket::bind(("0.0.0.0", p)).is_ok() {
            return p;
        }
    }
    std::net::UdpSocket::bind("127.0.0.1:0")
        .and_then(|s| s.local_addr())
        .map(|a| a.port())
        .unwrap_or(40000)
}

pub fn free_tcp_port() -> u16 {
    std::net::TcpListener::bind("127.0.0.1:0")
        .and_then(|s| s.local_addr())
        .map(|a| a.port().min(65000))
        .unwrap_or(41000)
}

impl Pair {
    pub fn new(cfg: &PairCfg) -> Self {
        Self::new_with(cfg, true, true)
    }

    /// `pump_x = false`: no event pump on that side (the pump holds a clone of the handle, which
    /// would defeat a scenario in which the application drops the connection).
    pub fn new_with(cfg: &PairCfg, pump_a: bool, pump_b: bool) -> Self {
        Self::new_on(cfg, pump_a, pump_b, None)
    }

    /// `handle_b`: B's internal tasks run on that runtime (see `Side::new_on`).
    pub fn new_on(cfg: &PairCfg, pump_a: bool, pump_b: bool, handle_b: Option<tokio::runtime::Handle>) -> Self {
        let mux_port = match cfg.ice.as_str() {
            "tcp" | "tcpActive+tcp" => free_tcp_port(),
            x if x.contains("udpmux") => free_udp_port().min(65000),
            _ => 0,
        };
        // with a mux socket on both sides each side needs a free port of its own
        let port_b = if cfg.ice.contains("udpmuxAB") { free_udp_port().min(65000) } else { mux_port };
        let a = Arc::new(Side::new("A", cfg, mux_port));
        let b = Arc::new(Side::new_on("B", cfg, port_b, handle_b));
        if pump_a {
            a.start_event_pump();
        }
        if pump_b {
            b.start_event_pump();
        }
        Pair {
            cfg: cfg.clone(),
            a,
            b,
        }
    }

    pub fn side(&self, l: &str) -> &Arc<Side> {
        if l == "A" { &self.a } else { &self.b }
    }
    pub fn offerer(&self) -> &Arc<Side> {
        self.side(&self.cfg.offerer.clone())
    }
    pub fn answerer(&self) -> &Arc<Side> {
        if self.cfg.offerer == "A" { &self.b } else { &self.a }
    }

    /// The offerer creates the data channel before the offer (so the m=application section exists).
    pub fn create_dc(&self) -> Result<(), String> {
        if !self.cfg.dc {
            return Ok(());
        }
        let o = self.offerer();
        let pc = o.try_pc().ok_or("dropped")?;
        let dc = pc
            .create_data_channel("verif", None)
            .map_err(|e| format!("create_data_channel: {e}"))?;
        log("app", &o.label, "dc_created", json!({"sid": dc.id}));
        o.attach_dc(dc);
        Ok(())
    }

    /// Signalling in separately callable steps (the lifecycle scenarios stop between them).
    pub async fn step_gather_offer(&self) -> Result<(), String> {
        let pc = self.offerer().try_pc().ok_or("dropped")?;
        let _ = pc.create_offer().await.map_err(|e| format!("create_offer: {e}"))?;
        Ok(())
    }

    pub async fn step_offer(&self) -> Result<SessionDescription, String> {
        let pc = self.offerer().try_pc().ok_or("dropped")?;
        let _ = pc.create_offer().await.map_err(|e| format!("create_offer: {e}"))?;
        pc.wait_for_gathering_complete().await;
        let d = pc.create_offer().await.map_err(|e| format!("create_offer: {e}"))?;
        log_ports(&self.offerer().label, &d);
        Ok(d)
    }

    pub fn step_set_local_offer(&self, offer: &SessionDescription) -> Result<(), String> {
        let pc = self.offerer().try_pc().ok_or("dropped")?;
        pc.set_local_description(offer.clone())
            .map_err(|e| format!("set_local(offer): {e}"))
    }

    pub async fn step_set_remote_offer(&self, offer: &SessionDescription) -> Result<(), String> {
        let pc = self.answerer().try_pc().ok_or("dropped")?;
        pc.set_remote_description(offer.clone())
            .await
            .map_err(|e| format!("set_remote(offer): {e}"))
    }

    pub async fn step_answer(&self) -> Result<SessionDescription, String> {
        let pc = self.answerer().try_pc().ok_or("dropped")?;
        let _ = pc.create_answer().await.map_err(|e| format!("create_answer: {e}"))?;
        pc.wait_for_gathering_complete().await;
        let d = pc.create_answer().await.map_err(|e| format!("create_answer: {e}"))?;
        log_ports(&self.answerer().label, &d);
        Ok(d)
    }

    pub fn step_set_local_answer(&self, answer: &SessionDescription) -> Result<(), String> {
        let pc = self.answerer().try_pc().ok_or("dropped")?;
        pc.set_local_description(answer.clone())
            .map_err(|e| format!("set_local(answer): {e}"))
    }

    pub async fn step_set_remote_answer(&self, answer: &SessionDescription) -> Result<(), String> {
        let pc = self.offerer().try_pc().ok_or("dropped")?;
        pc.set_remote_description(answer.clone())
            .await
            .map_err(|e| format!("set_remote(answer): {e}"))
    }

    /// Full offer/answer exchange.
    pub async fn signal(&self) -> Result<(), String> {
        let offer = self.step_offer().await?;
        self.step_set_local_offer(&offer)?;
        self.step_set_remote_offer(&offer).await?;
        // schedule "slowAnswer": the answering application takes its time (a callee picks up) before create_answer
        if self.cfg.sched == "slowAnswer" {
            tokio::time::sleep(Duration::from_millis(300)).await;
        }
        let answer = self.step_answer().await?;
        self.step_set_local_answer(&answer)?;
        self.step_set_remote_answer(&answer).await?;
        Ok(())
    }

    /// A second offer/answer round on the established connection, started by `by`.
    pub async fn renegotiate(&self, by: &str) -> Result<(), String> {
        let r = self.side(by).clone();
        let o = self.side(if by == "A" { "B" } else { "A" }).clone();
        let rpc = r.try_pc().ok_or("dropped")?;
        let opc = o.try_pc().ok_or("dropped")?;
        let offer = rpc.create_offer().await.map_err(|e| format!("reneg create_offer: {e}"))?;
        rpc.set_local_description(offer.clone()).map_err(|e| format!("reneg set_local(offer): {e}"))?;
        opc.set_remote_description(offer).await.map_err(|e| format!("reneg set_remote(offer): {e}"))?;
        let answer = opc.create_answer().await.map_err(|e| format!("reneg create_answer: {e}"))?;
        opc.set_local_description(answer.clone()).map_err(|e| format!("reneg set_local(answer): {e}"))?;
        rpc.set_remote_description(answer).await.map_err(|e| format!("reneg set_remote(answer): {e}"))?;
        Ok(())
    }

    pub fn both_connected(&self) -> bool {
        self.a.peer_state() == Some(PeerConnectionState::Connected)
            && self.b.peer_state() == Some(PeerConnectionState::Connected)
    }

    pub fn both_dc_open(&self) -> bool {
        self.a.dc_open.load(Ordering::SeqCst) && self.b.dc_open.load(Ordering::SeqCst)
    }
}

/// Log the local transport addresses a description advertises (to attribute leaked sockets).
pub fn log_ports(inst: &str, d: &SessionDescription) {
    let sdp = d.to_sdp_string();
    let mut ports: Vec<String> = vec![];
    for line in sdp.lines() {
        if let Some(c) = line.strip_prefix("a=candidate:") {
            let f: Vec<&str> = c.split_whitespace().collect();
            if f.len() > 5 {
                ports.push(format!("{}:{}", f[2].to_lowercase(), f[5]));
            }
        } else if let Some(m) = line.strip_prefix("m=") {
            let f: Vec<&str> = m.split_whitespace().collect();
            if f.len() > 1 {
                ports.push(format!("m:{}", f[1]));
            }
        }
    }
    log("app", inst, "ports", json!({"ports": ports}));
}

// --------------------------------------------------------------------------- waiting helpers

pub async fn wait_until(deadline: Duration, mut f: impl FnMut() -> bool) -> bool {
    let t0 = Instant::now();
    loop {
        if f() {
            return true;
        }
        if t0.elapsed() > deadline {
            return false;
        }
        tokio::time::sleep(Duration::from_millis(4)).await;
    }
}

/// Wait until the process-wide event counter has not moved for `quiet`, at most `max`.
pub async fn quiesce(quiet: Duration, max: Duration) -> bool {
    let t0 = Instant::now();
    let mut last = rustrtc::verif::event_count();
    let mut since = Instant::now();
    loop {
        tokio::time::sleep(Duration::from_millis(5)).await;
        let now = rustrtc::verif::event_count();
        if now != last {
            last = now;
            since = Instant::now();
        } else if since.elapsed() >= quiet {
            return true;
        }
        if t0.elapsed() > max {
            return false;
        }
    }
}

// --------------------------------------------------------------------------- resources

pub fn alive_tasks() -> usize {
    tokio::runtime::Handle::current().metrics().num_alive_tasks()
}

/// Number of socket descriptors of this process.
pub fn socket_count() -> usize {
    let mut n = 0;
    if let Ok(rd) = std::fs::read_dir("/proc/self/fd") {
        for e in rd.flatten() {
            if let Ok(t) = std::fs::read_link(e.path()) {
                if t.to_string_lossy().starts_with("socket:") {
                    n += 1;
                }
            }
        }
    }
    n
}

/// Local addresses of the socket descriptors of this process (diagnostics for leak reports).
pub fn socket_details() -> Vec<String> {
    let mut inodes = vec![];
    if let Ok(rd) = std::fs::read_dir("/proc/self/fd") {
        for e in rd.flatten() {
            if let Ok(t) = std::fs::read_link(e.path()) {
                let t = t.to_string_lossy().to_string();
                if let Some(i) = t.strip_prefix("socket:[").and_then(|x| x.strip_suffix(']')) {
                    inodes.push(i.to_string());
                }
            }
        }
    }
    let mut out = vec![];
    for (proto, path) in [("udp", "/proc/self/net/udp"), ("tcp", "/proc/self/net/tcp"), ("unix", "/proc/self/net/unix")] {
        if let Ok(s) = std::fs::read_to_string(path) {
            for line in s.lines().skip(1) {
                let f: Vec<&str> = line.split_whitespace().collect();
                if proto == "unix" {
                    if f.len() >= 7 && inodes.iter().any(|i| *i == f[6]) {
                        out.push(format!("unix:{}", f.get(7).unwrap_or(&"")));
                    }
                    continue;
                }
                if f.len() > 9 && inodes.iter().any(|i| *i == f[9]) {
                    let port = f[1].split(':').nth(1).and_then(|p| u16::from_str_radix(p, 16).ok()).unwrap_or(0);
                    out.push(format!("{proto}:{port}"));
                }
            }
        }
    }
    out
}
