"""C15 - RTP / RTCP encode and decode are mutually inverse and standards-conformant.

Level: exploration over a model-defined boundary product (byte fidelity of all packets is not something
TLC decides). spec/RtpWire.tla gives (i) the logical packet domain with its boundaries, (ii) the layout
algebra / wire-summary model with the inverse law, (iii) the small machines (extension Set/Get, NACK
pack/unpack around the 16-bit wrap, RTX wrap/unwrap, and - rule tag EXT - sender NACK buffer and receiver
gap detector). TLC checks the laws on the model and enumerates the cases; harness/src/bin/rtpwire.rs runs
every case on the real codec and on the reference crates rtp / rtcp 0.17.2.
"""
import concurrent.futures as cf
import json
import os

import vlib

PID = "C15"
SUB = "rtpwire"

BASE = dict(
    CsrcCounts="{0, 1, 15, 16}", PadLens="{0, 1, 255}", PayLens="{0, 1, 3, 4, 1200}",
    ExtIds1="{1, 7, 14}", ExtLens1="{1, 2, 3, 4, 16}", ExtIds2="{1, 15, 255}", ExtLens2="{0, 1, 3, 255}",
    MaxEls=3, ReportCounts="{0, 1, 31, 32}", TextLens="{0, 1, 255, 256}", MaxCompound=3, ExtDepth=3,
    NackBits=6, MaxNackSet=3, BufCaps="{1, 2, 3}", BufSeqs="{65534, 65535, 0, 1}", BufDepth=4,
    GapDeltas="{0, 1, 2, 3, 129, 130, 32767, 32768, 32769, 65535}", GapDepth=3,
)

MODES = ["rtp", "rtcp", "compound", "foreign", "ext", "nack", "rtx", "buf", "gap"]

TIERS = {
    "quick": {m: {} for m in MODES},
    "thorough": {
        "rtp": dict(PadLens="{0, 1, 2, 4, 255}", PayLens="{0, 1, 2, 3, 4, 5, 1200}", ExtIds1="{1, 2, 7, 14}",
                    ExtLens1="{1, 2, 3, 4, 5, 15, 16}", ExtIds2="{1, 14, 15, 16, 255}",
                    ExtLens2="{0, 1, 2, 3, 4, 254, 255}"),
        "rtcp": dict(ReportCounts="{0, 1, 2, 30, 31, 32, 33}", TextLens="{0, 1, 2, 3, 4, 254, 255, 256, 300}"),
        "compound": dict(MaxCompound=4),
        "foreign": dict(MaxCompound=4),
        "ext": dict(ExtLens1="{1, 2, 3, 4, 15, 16}", ExtDepth=4),
        "nack": dict(MaxNackSet=4),
        "rtx": {},
        "buf": dict(BufDepth=5, BufCaps="{1, 2, 3, 4}"),
        "gap": dict(GapDepth=4, GapDeltas="{0, 1, 2, 3, 4, 128, 129, 130, 131, 257, 32767, 32768, 32769, 65534, 65535}"),
    },
}

# rules of the listed property; everything else a replay reports is tagged EXT (DRIFT, exit 0)
C15_RULES = {"RoundTrip", "RefAgrees", "RefBytesParse", "Layout", "Reject", "ExtSetGet", "NackSet", "RtxRestore"}

PROPS = {"ext": "ExtSetGetLaw", "buf": "BufNewestKept"}


def write_cfg(path, mode, consts, emit=True, deviations="{}"):
    c = dict(BASE)
    c.update(consts)
    lines = ["SPECIFICATION Spec", "CONSTANTS", f'  Mode = "{mode}"', f"  Deviations = {deviations}"]
    lines += [f"  {k} = {v}" for k, v in c.items()]
    lines += ["  LostVals <- MC_LostVals"]
    lines += ["INVARIANTS Laws " + ("Emit" if emit else "NoEmit")]
    if mode in PROPS:
        lines += ["PROPERTIES " + PROPS[mode]]
    lines += ["CHECK_DEADLOCK FALSE"]
    with open(path, "w") as f:
        f.write("\n".join(lines) + "\n")


def sig_of(d):
    return {"sub": SUB, "rule": d.get("rule"), "kind": d.get("kind"), "field": d.get("field")}


def gen_mode(ck, tier, mode, consts):
    cfg = os.path.join(vlib.SPEC, f"MC_RtpWire_{PID}_{tier}_{mode}.gen.cfg")
    write_cfg(cfg, mode, consts)
    cases = os.path.join(ck.dir, f"cases_{tier}_{mode}.ndjson")
    try:
        res = vlib.tlc("MC_RtpWire", os.path.basename(cfg), tags=("CASE",), sinks={"CASE": cases},
                       timeout=3000 if tier == "thorough" else 600, heap="4g", tag=f"MC_RtpWire_{mode}",
                       extra=("-maxSetSize", "20000000"))   # KSets builds large intermediate sets
    finally:
        try:
            os.remove(cfg)
        except OSError:
            pass
    vlib.tlc_ok(res, f"mode={mode}")
    return mode, res, cases


def replay_cases(ck, cases, label):
    out = os.path.join(ck.dir, f"replay_{label}.ndjson")
    p = vlib.run_bin("rtpwire", [cases, out], timeout=3000)
    if p.returncode != 0:
        raise vlib.ToolError(f"rtpwire replayer failed rc={p.returncode}: {p.stderr[-2000:]}")
    rows = vlib.read_ndjson(out)
    summ = [r for r in rows if r.get("type") == "summary"][0]
    for r in rows:
        if r.get("type") != "divergence":
            continue
        if r.get("rule") in C15_RULES:
            ck.divergence(sig_of(r), r)
        else:
            ck.drift.append({k: r[k] for k in ("kind", "field", "expected", "observed") if k in r})
    return summ


def run(tier):
    ck = vlib.Check(PID, tier, level="exploration")
    vlib.build_harness(["rtpwire"])
    modes = TIERS[tier]
    results = {}
    # one single-worker TLC per sub-machine (emission must be single-worker), a few at a time
    with cf.ThreadPoolExecutor(max_workers=4) as ex:
        futs = [ex.submit(gen_mode, ck, tier, m, c) for m, c in modes.items()]
        for f in futs:
            m, res, cases = f.result()
            results[m] = (res, cases)
    total = 0
    nontrivial = 0
    exhaustive = True
    by_mode = {}
    for m in MODES:
        if m not in results:
            continue
        res, cases = results[m]
        ck.add_tlc(res, m)
        summ = replay_cases(ck, cases, f"{tier}_{m}")
        by_mode[m] = {"cases": summ["cases"], "field_checks": summ["checks"], "divergences": summ["divergences"],
                      "tlc_distinct": res["distinct"]}
        total += summ["cases"]
        nontrivial += summ["distinct_nontrivial"]
        exhaustive = exhaustive and res["finished"] and summ["cases"] == res["counts"]["CASE"]
        with open(cases) as f:
            for i, line in enumerate(f):
                if i in (0, 7):
                    ck.cov["samples"].append(json.loads(line))
                if i > 7:
                    break
        if tier == "thorough":      # disk hygiene: hundreds of MB of cases; divergence records carry their own case
            os.remove(cases)
    ck.cov["traces_validated_against_impl"] = total
    ck.cov["evaluations"] = total
    ck.cov["distinct_nontrivial"] = nontrivial
    ck.cov["by_mode"] = by_mode
    ck.cov["field_checks"] = sum(v["field_checks"] for v in by_mode.values())
    # exhaustive only over the model-defined boundary product, never over all packets
    ck.cov["exhaustive"] = False
    ck.cov["boundary_product_fully_executed"] = exhaustive
    ck.cov["rule"] = (
        "exploration over a model-defined boundary product: every case TLC enumerates from RtpWire.tla (RTP: CSRC "
        "count x padding x payload length x extension shape incl. every one-/two-byte element list within the "
        "alphabets; RTCP: each supported type x count / packets_lost / text-length / REMB / TWCC boundaries incl. "
        "over-range values; compound packets over a representative alphabet; every Set history of the extension "
        "machine; every NACK set with <= MaxNackSet members of a 64-number window centred on the 16-bit wrap plus "
        "runs; RTX cases; EXT: every bounded history of the sender NACK buffer and receiver gap detector) is built "
        "with the real constructors, serialised, parsed back (law 1), parsed by the reference crates and compared "
        "with the model's logical packet (law 2), serialised by the reference and parsed / re-serialised by rustrtc "
        "(law 3), and compared with the layout algebra's predictions. A case is non-trivial when at least one "
        "field comparison was evaluated on it (counted by hash of the case).")
    ck.assumptions += [
        "not all packets: scalar fields take {all-zero, all-one, seeded random} only; lengths / counts take the "
        "boundary values listed in tlc_runs constants",
        "the reference crates rtp / rtcp 0.17.2 are an independent implementation, not the standard itself "
        "(e.g. they pad BYE / SDES with a counted pad octet); only field agreement is compared, never bytes",
        "REMB bitrates >= 2^64 have no logical (u64) value and are outside the domain",
        "NACK sets are embedded with scale 1 so that the model's midpoint is the real 65535 -> 0 wrap",
        "TLC checks the wire-summary model (MarshalW / ParseW) and the algebraic laws, not the Rust code; the "
        "binding is the replay",
    ]
    ck.finish()


def replay(path):
    ck = vlib.Check(PID, "quick", level="exploration")
    vlib.build_harness(["rtpwire"])
    with open(path) as f:
        rec = json.load(f)
    case = rec["record"]["case"]
    cp = os.path.join(ck.dir, "replay_one_case.ndjson")
    vlib.write_ndjson(cp, [case])
    summ = replay_cases(ck, cp, "one")
    ck.cov.update(states=1, transitions=1, traces_validated_against_impl=summ["cases"], evaluations=summ["cases"],
                  distinct_nontrivial=summ["distinct_nontrivial"], samples=[case], rule="replay of one recorded case")
    ck.finish()


def selftest():
    """Negative controls on the model and on the replayer.
    (i) each named deviation switched on makes TLC report a violated law;
    (ii) corrupting one prediction of a generated case makes the replayer report a divergence."""
    ok = True
    for dev, mode in [("SdesLenCast", "rtcp"), ("CountCast", "rtcp"), ("TwccNoPadBit", "rtcp"),
                      ("NackBlpReversed", "nack"), ("RtxKeepsRtxSeq", "rtx")]:
        cfg = os.path.join(vlib.SPEC, f"MC_RtpWire_{PID}_selftest_{dev}.gen.cfg")
        write_cfg(cfg, mode, dict(MaxNackSet=1), emit=False, deviations='{"%s"}' % dev)
        res = vlib.tlc("MC_RtpWire", os.path.basename(cfg), timeout=600, workers=2, heap="2g", tag=f"selftest_{dev}")
        os.remove(cfg)
        hit = any("Invariant Laws is violated" in e or "Laws" in e for e in res["errors"])
        print(f"selftest: deviation {dev} on => TLC reports a violated law: {hit}")
        ok = ok and hit
    # (ii)
    ck = vlib.Check(PID + "-selftest", "quick", level="exploration")
    vlib.build_harness(["rtpwire"])
    cases = os.path.join(vlib.outdir(PID), "cases_quick_rtp.ndjson")
    if not os.path.exists(cases):
        gen_mode(ck, "quick", "rtp", {})
    rows = vlib.read_ndjson(cases)
    c = next(r for r in rows if r["enc"] and r["c"]["pad"] == 255)
    c["lay"]["total"] += 1
    cp = os.path.join(ck.dir, "corrupt.ndjson")
    vlib.write_ndjson(cp, [c])
    replay_cases(ck, cp, "corrupt")
    hit = any(s["rule"] == "Layout" and s["field"] == "total_len" for s, _ in ck.violations)
    print(f"selftest: corrupted prediction (total length + 1) is reported by the replayer: {hit}")
    ok = ok and hit
    raise SystemExit(0 if ok else 2)
