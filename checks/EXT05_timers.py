"""EXT05 part 2: IceTimers.tla (check list, nomination, role conflict, liveness timers) bound to a real
IceTransport by harness/src/bin/icetimers.rs. Transition cover (VIEW) + simulated behaviours."""
import json
import os
import vlib

CFGS = {
    "quick": [("edges", dict(MaxSteps=5, MaxSlow=1), None), ("sim", dict(MaxSteps=6, MaxSlow=2), (15, 5))],
    "thorough": [("edges", dict(MaxSteps=6, MaxSlow=2), None), ("sim", dict(MaxSteps=8, MaxSlow=3), (300, 8))],
}

FLAG_TEXT = {
    "RoleConflict": "a Binding request carrying the agent's own role attribute (ICE-CONTROLLING to a controlling agent, ...) is answered "
                    "with success; the agent neither switches role nor answers 487 (RFC 8445 7.3.1.1) - the attributes are not decoded at all",
    "RoleConflict487": "a 487 Role Conflict answer to the agent's own check just fails the pair: no role switch, no retry (RFC 8445 7.2.5.1)",
    "NominationNeedsValidPair": "a controlled agent takes USE-CANDIDATE as the nomination although its own check of that pair has not "
                                "succeeded (RFC 8445 7.3.1.5 waits for the pair to be Succeeded): selected + Connected + nominated at once",
    "TriggeredCheck": "an inbound request from a known candidate whose pair has failed does not trigger a check (RFC 8445 7.3.1.4): the agent "
                      "stays in Checking although the peer is reachable",
    "LivenessByAnyPacket": "any inbound datagram - unauthenticated, not even STUN, from a stranger - refreshes the liveness clock: no consent "
                           "freshness (RFC 7675); Connected/Checking never time out while noise arrives",
    "NominationFailureIsFatal": "a failed or timed-out nomination check selects the best succeeded pair 'for best-effort data flow' and at the "
                                "same time declares the transport Failed, which stops its read loops",
}


def write_cfg(path, c, emit):
    with open(path, "w") as f:
        f.write(f"""SPECIFICATION Spec
CONSTANTS
  Roles = {{"controlling", "controlled"}}
  MaxSteps = {c['MaxSteps']}
  MaxSlow = {c['MaxSlow']}
VIEW view
INVARIANTS NoEmit
PROPERTIES TerminalIsStable NominatedKeepsPair
{'ACTION_CONSTRAINT EmitEdge' if emit else ''}
CHECK_DEADLOCK FALSE
""")


def timers_part(ck, tier, findings, nonconf, run_shards):
    import EXT05
    EXT05.FLAG_TEXT.update(FLAG_TEXT)
    total = 0
    for label, consts, sim in CFGS[tier]:
        cfg = os.path.join(vlib.SPEC, f"MC_IceTimers_{tier}_{label}.gen.cfg")
        write_cfg(cfg, consts, emit=True)
        edges = os.path.join(ck.dir, f"timer_edges_{tier}_{label}.ndjson")
        try:
            kw = dict(simulate=sim[0], depth=sim[1]) if sim else {}
            res = vlib.tlc("MC_IceTimers", os.path.basename(cfg), tags=("EDGE",), sinks={"EDGE": edges}, timeout=900,
                           tag=f"MC_IceTimers_{tier}_{label}", **kw)
        finally:
            try:
                os.remove(cfg)
            except OSError:
                pass
        vlib.tlc_ok(res, "IceTimers/" + label)
        ck.add_tlc(res, "IceTimers/" + label)
        rows = run_shards("icetimers", edges, ck, f"timers_{label}", shards=16)
        stats = {}
        for r in rows:
            if r["type"] == "summary":
                for k, v in r["stats"].items():
                    stats[k] = stats.get(k, 0) + v
            elif r["type"] == "finding":
                for fl in r["flags"]:
                    e = findings.setdefault(fl, {"count": 0, "witness": None})
                    e["count"] += 1
                    if e["witness"] is None or len(json.dumps(r["witness"])) < len(json.dumps(e["witness"])):
                        e["witness"] = r["witness"]
            elif r["type"] == "drift":
                nonconf.append({"engine": "IceTimers", "label": label, "why": r["why"], "role": r["case"]["role"],
                                "steps": [s["op"] for s in r["case"]["steps"]]})
        ck.notes.append({"engine": "IceTimers", "label": label, "edges": res["counts"]["EDGE"], "harness": stats})
        total += stats.get("scenarios", 0)
        os.remove(edges)
    return total
