"""C20 - track sample queues (spsc.rs / track.rs).

Ring.tla is checked by TLC (safety invariants + liveness under weak fairness) for a list of bounded
configurations. For each configuration TLC also prints every (state, thread-step) edge of the reachable
graph; the edges are assembled into complete thread schedules (init -> teardown) that cover every edge,
and harness/src/bin/ring.rs executes each schedule on real threads with a baton scheduler (hooks H1),
comparing after every step: the label reached, head/tail, closed/ended flags, sender count, lock states,
the consumer's wake state, the number of live payload buffers, the result of a returning call, the sample
received (bit-identity) and the slot window -- and, independently of the model, slot-window overlap on the
real threads. The counterexamples of the deviation-on models (the three defects of the pinned tree) are
replayed as probes: the real code must refuse to follow them.
"""
import concurrent.futures as cf
import hashlib
import json
import os
import re
import subprocess
import time

import vlib

PID = "C20"
C, S = 100, 200

LABELS = ["call", "h_release", "c_sleep", "done", "src_closed", "src_lock", "push_lt", "push_lh", "push_w",
          "push_st", "src_notify", "src_trylock", "src_popunlock", "src_unlock", "pop_lh", "pop_lt", "pop_r",
          "pop_sh", "clone_add", "drop_sub", "drop_close", "drop_notify", "r_create", "r_ended", "r_lock",
          "r_closed", "r_setended", "r_unlock", "r_await", "r_recheck", "empty", "stop_store", "stop_notify",
          "rdrop_close", "rdrop_notify"]
RESULTS = ["", "Ok", "WouldBlock", "Closed", "none", "ok", "eos"]
OPS = {"s": "send", "t": "try", "m": "many", "c": "clone"}

SAFETY = ("TypeOK NoSlotRace NoDoubleTake MemSafe ReceivedIsPushed NoDuplicate PerProducerFifo DrainThenEos "
          "NoLeakNoDoubleFree NoLostWakeup LockDiscipline")
SAFETY_EXT = "NoLostWakeupStop"
LIVENESS = "CloseLeadsToEos Terminates"
LIVENESS_EXT = "StopLeadsToEos"


def K(cap, p1, p2="", p3="", own=False, nodrop=(), stop=False, chan=False, cmax=0, ncons=1, cancel=0):
    return dict(cap=cap, p1=p1, p2=p2, p3=p3, own=own, nodrop=tuple(nodrop), stop=stop, chan=chan, cmax=cmax,
                ncons=ncons, cancel=cancel)


# (label, constants, replay?) -- every configuration is model-checked; `replay` ones are also executed edge by edge
CFG = {
    "quick": [
        K(1, ""),                                   # the source is dropped without ever sending
        K(1, "ss"),                                 # overflow of a capacity-1 queue: drop-oldest vs the consumer
        K(2, "st", stop=True),                      # stop() at any moment
        K(1, "s", "s"),                             # two threads on one shared handle
        K(1, "s", "t", own=True),                   # two clones; try_send sees WouldBlock
        K(1, "cs", "s", own=True),                  # Clone/Drop accounting in the middle of a program
        K(3, "mt"),                                 # capacity that is not a power of two; send_many then try_send
        K(1, "m", nodrop=(1,), stop=True),          # send_many; a handle kept alive: only stop() ends the stream
        K(1, "ss", cancel=1),                       # the pending recv() future is dropped at its await, recv() called again
        K(1, "s", stop=True, cancel=1),             # ... with stop() racing
        K(1, "s", ncons=2),                         # two consumers on one track (recv takes &self)
        # pipeline.rs: SampleQueueSender / ChannelMediaSource (same ring, own recv loop, Receiver::drop closes)
        K(1, "ss", chan=True),
        K(1, "s", "t", chan=True),                  # two threads on one Sync sender
        K(2, "st", chan=True, cmax=1),              # the receiver is dropped while the sender is still sending
    ],
    "thorough": [
        K(1, ""), K(1, "ss"), K(2, "st", stop=True), K(1, "s", "s"), K(1, "s", "t", own=True),
        K(1, "cs", "s", own=True), K(1, "sc", "s", own=True), K(3, "mt"), K(1, "m", nodrop=(1,), stop=True),
        K(1, "s", "s", nodrop=(1,), stop=True),
        K(2, "m", "s", nodrop=(1,), stop=True),
        K(1, "ss", chan=True), K(1, "s", "t", chan=True), K(2, "st", chan=True, cmax=1),
        K(2, "ss", "st", chan=True), K(1, "sst", "s", chan=True, cmax=2),
        K(2, "ss", "ss"),                           # the design-phase calibration configuration (576 k edges)
        K(1, "s", "s", "s"),                        # three producer threads (544 k edges)
        K(2, "ms", "t", nodrop=(2,)),
        K(3, "sss", "t", own=True),                 # four samples through a capacity-3 ring
        K(1, "ss", cancel=1), K(1, "s", stop=True, cancel=1), K(1, "s", ncons=2), K(1, "ss", chan=True, cancel=1),
        K(2, "st", stop=True, cancel=1), K(1, "s", ncons=2, cancel=1),
        K(2, "m", "m"),                             # two send_many calls interleaved sample by sample
        K(4, "mm", "t"),                            # capacity 4; a consumer sees the first half of a send_many
    ],
    # model-checked only (safety + liveness), too large to replay edge by edge within the thorough budget
    "thorough_mc_only": [
        K(1, "m", "t", stop=True), K(3, "sss", "s", own=True), K(2, "st", "cs", own=True, stop=True),
        K(2, "sm", "ts", nodrop=(1,), stop=True), K(3, "sss", "ss"),
        K(4, "m", "s", "t"), K(4, "s", "s", "s", own=True),                 # capacity 4, three producer threads
        K(1, "s", "s", ncons=2), K(1, "s", ncons=2, cancel=1, stop=True), K(2, "ss", ncons=2, cancel=1),
    ],
}

SIM = {"quick": 150, "thorough": 2000}      # simulated behaviours per configuration (G-sim)

# deviation -> smallest configuration whose counterexample shows it, and the invariant that fails
PROBES = [
    ("UnserialisedProducers", K(2, "s", "s"), "NoSlotRace", "race"),
    ("UnserialisedProducers", K(2, "s", "s"), "MemSafe", "overwrite"),
    ("NotifiedAfterCheck", K(1, ""), "NoLostWakeup", "lostwakeup"),
    ("ClosedCheckAfterPop", K(1, "s"), "DrainThenEos", "earlyeos"),
    ("NotifiedAfterCheck", K(1, "", nodrop=(1,), stop=True), "NoLostWakeupStop", "lostwakeup_stop"),
    ("UnserialisedProducers", K(2, "s", "s", chan=True), "NoSlotRace", "chan_race"),
    ("ClosedCheckAfterPop", K(1, "s", chan=True), "DrainThenEos", "chan_earlyeos"),
]


def label_of(k):
    s = f"cap{k['cap']}_{k['p1'] or '0'}_{k['p2'] or '0'}_{k['p3'] or '0'}_{'own' if k['own'] else 'arc'}"
    if k["nodrop"]:
        s += "_keep" + "".join(map(str, k["nodrop"]))
    if k["stop"]:
        s += "_stop"
    if k.get("ncons", 1) > 1:
        s += f"_cons{k['ncons']}"
    if k.get("cancel"):
        s += f"_cancel{k['cancel']}"
    if k.get("chan"):
        s = "chan_" + s + (f"_cmax{k['cmax']}" if k["cmax"] else "")
    return s


def digits(prog):
    return "".join(str("stmc".index(c) + 1) for c in prog) or "0"


def harness_cfg(k):
    progs = {"1": [OPS[c] for c in k["p1"]]}
    if k["p2"]:
        progs["2"] = [OPS[c] for c in k["p2"]]
    if k["p3"]:
        progs["3"] = [OPS[c] for c in k["p3"]]
    return {"type": "cfg", "cap": k["cap"], "progs": progs, "shared": not k["own"], "nodrop": list(k["nodrop"]),
            "stop": k["stop"], "label": label_of(k), "variant": "chan" if k.get("chan") else "track", "cmax": k.get("cmax", 0), "ncons": k.get("ncons", 1)}


def write_cfg(path, k, emit=False, deviations=(), invariants=SAFETY, properties=""):
    dev = "{" + ", ".join(f'"{d}"' for d in deviations) + "}"
    nd = "{" + ", ".join(str(x) for x in k["nodrop"]) + "}"
    with open(path, "w") as f:
        f.write(f"""SPECIFICATION Spec
CONSTANTS
  Cap = {k['cap']}
  Prog <- MCProg
  Prog1 = {digits(k['p1'])}
  Prog2 = {digits(k['p2'])}
  Prog3 = {digits(k['p3'])}
  Shared = {"FALSE" if k['own'] else "TRUE"}
  NoDrop = {nd}
  UseStop = {"TRUE" if k['stop'] else "FALSE"}
  Variant = "{'chan' if k.get('chan') else 'track'}"
  CMax = {k.get('cmax', 0)}
  NCons = {k.get('ncons', 1)}
  CCancel = {k.get('cancel', 0)}
  Deviations = {dev}
VIEW view
{"INVARIANTS " + invariants if invariants else ""}
{"PROPERTIES " + properties if properties else ""}
ACTION_CONSTRAINT {'EmitEdge' if emit else 'NoEmit'}
CHECK_DEADLOCK FALSE
""")


# --------------------------------------------------------------------------- edges -> expectations -> schedules

def proc_of(state, p):
    for q in state[13]:
        if q[0] == p:
            return q
    return None


def expect(f, t, p, cap, k=None):
    """What the real objects must show after thread p stepped from state f to state t.
    State layout: MC_Ring!StateId. p >= 1000: the caller drops consumer (p - 1000)'s pending recv() future."""
    if p == 0:
        return {"lbl": "teardown", "live": len(t[14]) - len(t[15])}
    cancel = p >= 1000
    p = p % 1000
    tp, fp = proc_of(t, p), proc_of(f, p)
    lbl = LABELS[tp[1] - 1]
    cons = sorted(q[0] for q in t[12])
    ret, got = "", 0
    if p in cons and not cancel:
        fl, tl = LABELS[fp[1] - 1], lbl
        tres = dict((q[0], q[1]) for q in t[18])[p]
        fres = dict((q[0], q[1]) for q in f[18])[p]
        if tres != fres or len(t[17]) != len(f[17]) or \
                (fl not in ("call", "rdrop_close", "rdrop_notify") and tl in ("call", "done")):
            ret = RESULTS[tres - 1]
            if len(t[17]) != len(f[17]):
                got = t[17][-1]
    elif p != S and not cancel:
        if tp[10] != fp[10]:
            ret = RESULTS[tp[14] - 1]
            if k and k.get("chan") and ret in ("WouldBlock", "Closed") and k["p%d" % p][fp[10] - 1] == "t":
                ret = "Rejected"            # SampleQueueSender::try_send hands the sample back for both reasons
    win = -1
    if lbl in ("push_w", "push_st"):
        win = tp[2] % cap
    elif lbl in ("pop_r", "pop_sh"):
        win = tp[4] % cap
    woken = 0
    for i, cid in enumerate(cons):
        if LABELS[proc_of(t, cid)[1] - 1] == "c_sleep" and cid not in t[11]:
            woken |= 1 << i
    return {"lbl": lbl, "head": t[0], "tail": t[1], "closed": bool(t[5]), "ended": bool(t[6]), "active": t[7],
            "poplocked": t[4] != 0, "plocked": t[3] != 0, "woken": woken,
            "live": len(t[14]) - len(t[15]), "ret": ret, "got": got, "win": win}


def read_edges(path):
    with open(path) as fh:
        for line in fh:
            line = line.strip()
            if not line:
                continue
            cut = line.index(',"t":')
            cut2 = line.rindex(',"p":')
            yield line[5:cut], line[cut + 5:cut2], int(line[cut2 + 5:-1])


XF = ("lbl", "head", "tail", "closed", "ended", "active", "poplocked", "plocked", "woken", "live", "ret", "got", "win")


def build_plan(edges_path, plan_path, k, sim_path=None):
    """Read TLC's edge list, build the state graph and cover every edge with complete behaviours; add the
    behaviours TLC's simulation mode walked (G-sim: the same edges reached through other, unmerged histories)."""
    ids = {}
    src, dst, who, xs = [], [], [], []
    cap = k["cap"]
    # memory: states are keyed by a 12-byte digest of their identifier, expectations kept as tuples
    def key(s):
        return hashlib.blake2b(s.encode(), digest_size=12).digest()

    for fs, ts, p in read_edges(edges_path):
        u = ids.setdefault(key(fs), len(ids))
        v = ids.setdefault(key(ts), len(ids))
        src.append(u)
        dst.append(v)
        who.append(p)
        x = expect(json.loads(fs), json.loads(ts), p, cap, k)
        xs.append(tuple(x.get(f) for f in XF))
    n, m = len(ids), len(src)
    out = [[] for _ in range(n)]
    inn = [[] for _ in range(n)]
    for e in range(m):
        out[src[e]].append(e)
        inn[dst[e]].append(e)
    for u in range(n):
        out[u].sort(key=lambda e: (who[e], dst[e]))
    roots = [u for u in range(n) if not inn[u]]
    if len(roots) != 1:
        raise vlib.ToolError(f"expected one initial state in the edge graph, found {len(roots)}")
    root = roots[0]
    # shortest prefix from the initial state
    par = [-1] * n
    order = [root]
    seen = [False] * n
    seen[root] = True
    for u in order:
        for e in out[u]:
            v = dst[e]
            if not seen[v]:
                seen[v] = True
                par[v] = e
                order.append(v)
    if len(order) != n:
        raise vlib.ToolError("edge graph is not connected from the initial state")
    # shortest completion to a terminal state
    nxt = [-1] * n
    dist = [-1] * n
    q = [u for u in range(n) if not out[u]]
    for u in q:
        dist[u] = 0
    for u in q:
        for e in inn[u]:
            v = src[e]
            if dist[v] < 0:
                dist[v] = dist[u] + 1
                nxt[v] = e
                q.append(v)
    if any(d < 0 for d in dist):
        raise vlib.ToolError("a state of the edge graph cannot reach a terminal state")
    covered = bytearray(m)
    paths = []
    # topological order (the graph of these finite programs is acyclic); gain[v] = the largest number of uncovered
    # edges on a path from v to the end. Each schedule follows the maximal-gain path; gains are refreshed every few
    # schedules (greedy longest-uncovered-path cover: ~4x fewer steps than prefix + one edge + completion).
    indeg = [len(inn[u]) for u in range(n)]
    topo = [u for u in range(n) if indeg[u] == 0]
    for u in topo:
        for e in out[u]:
            v = dst[e]
            indeg[v] -= 1
            if indeg[v] == 0:
                topo.append(v)
    if len(topo) != n:
        raise vlib.ToolError("the edge graph has a cycle")
    rtopo = topo[::-1]
    gain = [0] * n
    left = m
    productive = True
    while left > 0 and productive:
        for u in rtopo:
            g = 0
            for e in out[u]:
                x = gain[dst[e]] + (0 if covered[e] else 1)
                if x > g:
                    g = x
            gain[u] = g
        batch = got = 0
        while left > 0 and batch < max(12, m // 400):
            path, new, v = [], 0, root
            while out[v]:
                best, bg = None, -1
                for e in out[v]:
                    x = gain[dst[e]] + (0 if covered[e] else 1000000)      # an uncovered edge here and now comes first
                    if x > bg:
                        best, bg = e, x
                path.append(best)
                if not covered[best]:
                    covered[best] = 1
                    new += 1
                v = dst[best]
            if new == 0:
                break                                                     # stale gains: refresh
            left -= new
            got += new
            paths.append(path)
            batch += 1
        productive = batch > 0 and got >= 3 * batch
    # the rest, edge by edge: shortest prefix to the edge, then uncovered edges first, then the shortest completion
    for e0 in range(m):
        if covered[e0]:
            continue
        pre, v = [], src[e0]
        while par[v] >= 0:
            pre.append(par[v])
            v = src[par[v]]
        pre.reverse()
        path, v = pre + [e0], dst[e0]
        while out[v]:
            e = next((e for e in out[v] if not covered[e]), None)
            if e is None:
                e = nxt[v]
            path.append(e)
            v = dst[e]
        for e in path:
            covered[e] = 1
        paths.append(path)
    assert all(covered)
    ncover = len(paths)
    if sim_path:
        # simulation prints, for each state it visits, all out-edges; the walk continues at the next group's state
        eidx = {(src[e], who[e]): e for e in range(m)}
        walk, group, gf = [], [], None

        def close(nextf):
            """choose the edge of the finished group that the walk took"""
            nonlocal walk
            if not group:
                return
            pick = next((e for e in group if dst[e] == nextf), None)
            if pick is None:                       # the walk ended here: terminal successor, or depth exhausted
                pick = next((e for e in group if not out[dst[e]]), None)
                if pick is None:
                    pick = nxt[src[group[0]]]
                walk.append(pick)
                v = dst[pick]
                while out[v]:
                    walk.append(nxt[v])
                    v = dst[nxt[v]]
                paths.append(walk)
                walk = []
            else:
                walk.append(pick)

        for fs, ts, p in read_edges(sim_path):
            u = ids.get(key(fs))
            if u is None or (u, p) not in eidx:
                raise vlib.ToolError("simulation visited a state / edge outside the exhaustive graph")
            if u != gf:
                close(u)
                group, gf = [], u
                if u == root and walk:
                    raise vlib.ToolError("simulation walk restarted unexpectedly")
            group.append(eidx[(u, p)])
        close(-1)
    with open(plan_path, "w") as fh:
        fh.write(json.dumps(harness_cfg(k)) + "\n")
        for e in range(m):
            x = {f: v for f, v in zip(XF, xs[e]) if v is not None}
            fh.write(json.dumps({"type": "edge", "i": e, "p": who[e], "x": x}, separators=(",", ":")) + "\n")
        for i, p in enumerate(paths):
            fh.write(json.dumps({"type": "path", "id": i, "steps": p}, separators=(",", ":")) + "\n")
    nontrivial = sum(1 for e in range(m) if who[e] != 0)
    return {"states": n, "edges": m, "paths": len(paths), "steps": sum(len(p) for p in paths), "cover_paths": ncover,
            "sim_paths": len(paths) - ncover, "thread_steps": nontrivial, "sample": [[who[e], xs[e][0]] for e in paths[len(paths) // 2]]}


# --------------------------------------------------------------------------- running things

def run_harness(plan, outbase, shards):
    """Run the baton scheduler over one plan in `shards` processes; returns all output rows."""
    procs = []
    for i in range(shards):
        o = f"{outbase}.{i}.ndjson"
        env = dict(os.environ)
        env["VERIF_SEED"] = str(vlib.seed())
        procs.append((i, o, subprocess.Popen([vlib.bin_path("ring"), plan, o, f"{i}/{shards}"], cwd=vlib.ROOT, env=env,
                                             stdout=subprocess.DEVNULL, stderr=subprocess.PIPE, text=True)))
    rows = []
    for i, o, p in procs:
        try:
            _, err = p.communicate(timeout=3000)
        except subprocess.TimeoutExpired:
            p.kill()
            raise vlib.ToolError(f"ring shard {i} timed out")
        if p.returncode != 0:
            if p.returncode == 2 or "usage:" in err or "panicked at" in err and "src/bin/ring.rs" in err:
                raise vlib.ToolError(f"ring shard {i} failed rc={p.returncode}: {err[-1500:]}")
            # the process running the code under test died (signal / abort): that is data, attributed to the
            # schedule that was running; divergences flushed before the crash are kept
            cur = None
            try:
                cur = open(o + ".progress").read().strip()
            except OSError:
                pass
            try:
                with open(o) as fh:
                    for line in fh:
                        try:
                            rows.append(json.loads(line))
                        except ValueError:
                            pass
            except OSError:
                pass
            rows.append({"type": "divergence", "rule": "MemSafe", "kind": "crash", "field": "process",
                         "detail": f"process executing the schedules died rc={p.returncode} (schedule {cur})", "path": cur,
                         "stderr": err[-800:]})
            continue
        rows += vlib.read_ndjson(o)
        os.remove(o)
    return rows


def sig_of(d):
    exp, obs = d.get("expected") or {}, d.get("observed") or {}
    sig = {"sub": "ring", "rule": d.get("rule"), "kind": d.get("kind"), "field": d.get("field"), "at": d.get("at")}
    if d.get("field") == "lbl" and isinstance(exp, dict) and isinstance(obs, dict):
        sig["expected"], sig["observed"] = exp.get("lbl"), obs.get("lbl")
    return sig


def trace_to_sched(path):
    """TLC -dumpTrace json -> [[thread, label after the step], ...]"""
    with open(path) as f:
        tr = json.load(f)
    states = tr["counterexample"]["state"]
    sched = []
    for st in states[1:]:
        s = st[1]
        w = s["who"]
        sched.append([w, "teardown" if w == 0 else s["pc"][str(w % 1000)]])
    return sched


def probe_witness(ck, dev, k, inv, name):
    """Counterexample of the deviation-on model; returns (tlc result, schedule or None)."""
    cfg = os.path.join(vlib.SPEC, f"MC_Ring_probe_{name}.{os.getpid()}.gen.cfg")
    write_cfg(cfg, k, emit=False, deviations=(dev,), invariants=inv)
    tr = os.path.join(ck.dir, f"witness_{name}.json")
    if os.path.exists(tr):
        os.remove(tr)
    res = vlib.tlc("MC_Ring", os.path.basename(cfg), workers=1, timeout=600, tag=f"MC_Ring_probe_{name}",
                   extra=("-dumpTrace", "json", tr), heap="2g")
    os.remove(cfg)
    if not any(inv in e for e in res["errors"]) or not os.path.exists(tr):
        return res, None
    return res, trace_to_sched(tr)


def classify_witness(name, w):
    """Did the real code go along with the counterexample of the deviation-on model? -> (reproduced, rule, what)"""
    name = name.replace("chan_", "")
    if name == "race":
        hit = [r for r in w.get("race", []) if r["rule"] == "NoSlotRace"]
        return bool(hit), "NoSlotRace", f"two threads own slot {hit[0]['slot']} at once: {hit[0]}" if hit else ""
    if name == "overwrite":
        # both sends returned Ok without overflow, one payload was overwritten in its slot
        # both threads wrote the slot they had both reserved; the first payload is never dropped
        bad = w.get("complete") and bool(w.get("race")) and w.get("live_after_teardown", 0) > 0
        return bool(bad), "MemSafe", (f"two senders wrote slot {w['race'][0]['slot'] if w.get('race') else '?'}; the overwritten payload "
                                      f"was never freed (live buffers after teardown: {w.get('live_after_teardown')})")
    if name in ("lostwakeup", "lostwakeup_stop"):
        flag = "closed" if name == "lostwakeup" else "ended"
        bad = w.get("complete") and w["labels"].get(str(C)) == "c_sleep" and not w.get("woken") and w.get(flag)
        rule = "NoLostWakeup" if name == "lostwakeup" else "NoLostWakeupStop"
        return bool(bad), rule, f"consumer parked in notified() with no runnable step although {flag}=true"
    if name == "earlyeos":
        eos = any(r[0] == C and r[1] == "eos" for r in w.get("rets", []))
        bad = w.get("complete") and eos and w.get("tail", 0) > w.get("head", 0)
        return bool(bad), "DrainThenEos", f"recv() returned end-of-stream with {w.get('tail', 0) - w.get('head', 0)} sample(s) queued"
    return False, "?", ""


def model_and_replay(ck, k, tier, shards):
    lab = label_of(k)
    cfg = os.path.join(vlib.SPEC, f"MC_Ring_{lab}.{os.getpid()}.gen.cfg")
    write_cfg(cfg, k, emit=True, invariants=SAFETY + " " + SAFETY_EXT)
    edges = os.path.join(ck.dir, f"edges_{lab}.ndjson")
    res = vlib.tlc("MC_Ring", os.path.basename(cfg), timeout=3000 if tier == "thorough" else 900, tags=("EDGE",),
                   sinks={"EDGE": edges}, tag=f"MC_Ring_{lab}", heap="1500m")
    os.remove(cfg)
    return lab, res, edges


def mc_only(k):
    """safety invariants on a configuration that is too large to replay (several TLC workers, no emission)"""
    lab = label_of(k)
    cfg = os.path.join(vlib.SPEC, f"MC_Ring_mc_{lab}.{os.getpid()}.gen.cfg")
    write_cfg(cfg, k, emit=False, invariants=SAFETY + " " + SAFETY_EXT)
    res = vlib.tlc("MC_Ring", os.path.basename(cfg), workers=4, timeout=3000, tag=f"MC_Ring_mc_{lab}", heap="3g")
    os.remove(cfg)
    return lab, res


def liveness(k, tier):
    lab = label_of(k)
    cfg = os.path.join(vlib.SPEC, f"MC_Ring_live_{lab}.{os.getpid()}.gen.cfg")
    props = "Terminates" if k.get("cmax") else LIVENESS + ("" if k.get("chan") else " " + LIVENESS_EXT)
    write_cfg(cfg, k, emit=False, invariants="", properties=props)
    res = vlib.tlc("MC_Ring", os.path.basename(cfg), workers=2, timeout=3000 if tier == "thorough" else 900,
                   tag=f"MC_Ring_live_{lab}", heap="2g")
    os.remove(cfg)
    return lab, res


# --------------------------------------------------------------------------- binding T: free-running stress

STRESS = {
    "quick": dict(Caps="{1, 2, 64}", NProds="{2, 4}", Mixes='{"mixed", "clone"}', Ops=16, chunks=4),
    "thorough": dict(Caps="{1, 2, 3, 8, 64}", NProds="{1, 2, 3, 4}", Mixes='{"try", "mixed", "clone"}', Ops=24, chunks=12),
}
T_RULE = {"recv_end/ok": "QueueOrder", "recv_end/eos": "DrainThenEos", "recv_end/pending": "NoLostWakeup",
          "teardown": "NoLeakNoDoubleFree", "send_end": "CallResult"}


def annotate(rows):
    """recv_start carries the outcome of its call (taken from the matching recv_end), see Trace_Ring!RecvStart."""
    pend = None
    for r in rows:
        if r["ev"] == "recv_start":
            pend = r
            r["res"], r["id"] = "pending", 0
        elif r["ev"] == "recv_end":
            r.setdefault("id", 0)
            if pend is not None:
                pend["res"], pend["id"] = r["res"], r["id"]
                pend = None
    return rows


def validate_trace(ck, tag, rows, timeout):
    """Trace_Ring on one log; returns (tlc result, rejection records)"""
    tp = os.path.join(ck.dir, f"stress_trace_{tag}.ndjson")
    vlib.write_ndjson(tp, rows)
    rej = os.path.join(ck.dir, f"stress_rej_{tag}.ndjson")
    res = vlib.tlc("Trace_Ring", "Trace_Ring.cfg", timeout=timeout, tags=("REJECTED",), sinks={"REJECTED": rej},
                   env={"TRACE": tp, "JAVA_TOOL_OPTIONS": "-Dtlc2.tool.queue.IStateQueue=StateDeque"},
                   tag=f"Trace_Ring_{tag}", heap="2g")
    rejected = vlib.read_ndjson(rej)
    os.remove(rej)
    os.remove(tp)
    return res, rejected


def stress_chunk(ck, i, scen, budget):
    sp = os.path.join(ck.dir, f"stress_scen_{i}.ndjson")
    tp = os.path.join(ck.dir, f"stress_raw_{i}.ndjson")
    vlib.write_ndjson(sp, scen)
    p = vlib.run_bin("ring", ["stress", sp, tp], timeout=900)
    os.remove(sp)
    if p.returncode != 0:
        # the free-running process died or a thread panicked inside the code under test: data
        return i, [], [], [{"crash": {"rc": p.returncode, "stderr": p.stderr[-600:], "scenarios": scen[:3]}}], 0
    rows = annotate(vlib.read_ndjson(tp))
    os.remove(tp)
    res, rejected = validate_trace(ck, str(i), rows, budget)
    if not res.get("timeout"):
        return i, [res], rows, [dict(r, rows=rows) for r in rejected[:1]], 0
    # The search for an explanation can blow up when the consumer thread was starved (many overlapping sends nobody
    # observed yet). Validate the scenarios one by one; one that still exceeds its budget is inconclusive, not an alarm.
    cuts = [j for j, r in enumerate(rows) if r["ev"] == "reset"] + [len(rows)]
    results, rejs, inconclusive = [], [], 0
    for a, b in zip(cuts, cuts[1:]):
        r1, rj = validate_trace(ck, f"{i}_{a}", rows[a:b], 90)
        if r1.get("timeout"):
            inconclusive += 1
            continue
        results.append(r1)
        if rj and not rejs:
            rejs.append(dict(rj[0], rows=rows[a:b]))
    return i, results, rows, rejs, inconclusive


def stress(ck, tier):
    """TLC enumerates the configuration space; free-running threads log call start/end; Trace_Ring validates."""
    s = STRESS[tier]
    cfg = os.path.join(vlib.SPEC, f"MC_RingStress.{os.getpid()}.gen.cfg")
    with open(cfg, "w") as f:
        f.write(f"SPECIFICATION Spec\nCONSTANTS\n  Caps = {s['Caps']}\n  NProds = {s['NProds']}\n  Mixes = {s['Mixes']}\n"
                f"  Ops = {s['Ops']}\nINVARIANT Emit\nCHECK_DEADLOCK FALSE\n")
    sp = os.path.join(ck.dir, "stress_scen.ndjson")
    res = vlib.tlc("MC_RingStress", os.path.basename(cfg), timeout=300, tags=("SCEN",), sinks={"SCEN": sp},
                   tag="MC_RingStress", heap="1g")
    os.remove(cfg)
    vlib.tlc_ok(res, "stress configurations")
    scen = vlib.read_ndjson(sp)
    os.remove(sp)
    n = s["chunks"]
    chunks = [scen[i::n] for i in range(n)]
    out = {"scenarios": len(scen), "events": 0, "rejected": [], "inconclusive": 0}
    budget = 150 if tier == "quick" else 300
    with cf.ThreadPoolExecutor(max_workers=min(n, 3)) as ex:
        for i, results, rows, rejected, inconclusive in ex.map(lambda a: stress_chunk(ck, a[0], a[1], budget), enumerate(chunks)):
            if rejected and "crash" in rejected[0]:
                ck.divergence({"sub": "ring", "rule": "MemSafe", "kind": "stress-crash"}, rejected[0]["crash"])
                continue
            for tres in results:
                ck.add_tlc(tres, f"trace validation chunk {i}")
                if not rejected and (tres["errors"] or tres["rc"] != 0):
                    vlib.tlc_ok(tres, f"trace validation chunk {i}")
            out["events"] += len(rows)
            out["inconclusive"] += inconclusive
            if rejected:
                rws = rejected[0]["rows"]
                at = rejected[0]["at"]
                ev = rws[at - 1] if at <= len(rws) else {"ev": "end"}
                key = ev["ev"] + ("/" + ev.get("res", "") if ev["ev"] == "recv_end" else "")
                first = max(j for j in range(at) if rws[j]["ev"] == "reset")
                ck.divergence({"sub": "ring", "rule": T_RULE.get(key, "TraceConformance"), "kind": "trace", "event": key},
                              {"rule": T_RULE.get(key, "TraceConformance"), "rejected_at": ev, "scenario": rws[first].get("cfg"),
                               "trace": rws[first:at + 3]})
                out["rejected"].append(key)
    if out["inconclusive"]:
        ck.notes.append(f"{out['inconclusive']} stress scenario(s) not decided within the validation budget (consumer starved)")
    return out


# --------------------------------------------------------------------------- EXT engine: MediaRelay fan-out

def relay_engine(ck, tier, deviations=()):
    """Relay.tla (EXT): invariants on the model; every (state, operation) edge replayed on a real MediaRelay."""
    dev = "{" + ", ".join(f'"{d}"' for d in deviations) + "}"
    cfg = os.path.join(vlib.SPEC, f"MC_Relay.{os.getpid()}.gen.cfg")
    with open(cfg, "w") as f:
        f.write(f"""SPECIFICATION Spec
CONSTANTS
  Subs = {{1, 2}}
  MaxSend = {3 if tier == "quick" else 4}
  SrcCap = 2
  RCap = 2
  MaxLen = {9 if tier == "quick" else 11}
  Deviations = {dev}
VIEW view
INVARIANTS {"Ordered" if deviations else "NoPanic RelayAlive Ordered"}
ACTION_CONSTRAINT EmitEdge
CHECK_DEADLOCK FALSE
""")
    cases = os.path.join(ck.dir, "relay_cases.ndjson")
    res = vlib.tlc("MC_Relay", os.path.basename(cfg), timeout=600, tags=("EDGE",), sinks={"EDGE": cases}, tag="MC_Relay",
                   heap="1g")
    os.remove(cfg)
    out = os.path.join(ck.dir, "relay_out.ndjson")
    p = vlib.run_bin("relay", [cases, out], timeout=900)
    if p.returncode != 0:
        raise vlib.ToolError(f"relay replayer failed rc={p.returncode}: {p.stderr[-1500:]}")
    rows = vlib.read_ndjson(out)
    os.remove(cases)
    os.remove(out)
    return res, rows


def selector_engine(ck, deviations=()):
    """Selector.tla (EXT): every complete behaviour is a thread schedule executed on a real SelectorTrack."""
    dev = "{" + ", ".join(f'"{d}"' for d in deviations) + "}"
    cfg = os.path.join(vlib.SPEC, f"MC_Selector.{os.getpid()}.gen.cfg")
    with open(cfg, "w") as f:
        f.write(f"SPECIFICATION Spec\nCONSTANTS\n  Deviations = {dev}\n"
                f"INVARIANTS EmitDone{'' if deviations else ' FollowsSwitch'}\n"
                f"{'' if deviations else 'PROPERTIES Delivers'}\nCHECK_DEADLOCK FALSE\n")
    cases = os.path.join(ck.dir, "selector_cases.ndjson")
    res = vlib.tlc("MC_Selector", os.path.basename(cfg), timeout=600, tags=("SCHED",), sinks={"SCHED": cases},
                   tag="MC_Selector", heap="1g")
    os.remove(cfg)
    out = os.path.join(ck.dir, "selector_out.ndjson")
    p = vlib.run_bin("relay", ["selector", cases, out], timeout=900)
    if p.returncode != 0:
        raise vlib.ToolError(f"selector replayer failed rc={p.returncode}: {p.stderr[-1500:]}")
    rows = vlib.read_ndjson(out)
    os.remove(cases)
    os.remove(out)
    return res, rows


class DirOnly:
    """what one_config needs from a Check, picklable"""
    def __init__(self, d):
        self.dir = d


def one_config(ck, k, tier, shards):
    """TLC safety + edge emission -> schedules -> baton replay, for one configuration."""
    t0 = time.time()
    lab, res, edges = model_and_replay(ck, k, tier, shards)
    if res.get("timeout") or res["errors"] or res["rc"] != 0:
        return dict(k=k, lab=lab, res=res, st=None, rows=[])
    # G-sim: random complete behaviours of the same model (other histories into the same states)
    cfg = os.path.join(vlib.SPEC, f"MC_Ring_sim_{lab}.{os.getpid()}.gen.cfg")
    write_cfg(cfg, k, emit=True, invariants="TypeOK")
    sim = os.path.join(ck.dir, f"sim_{lab}.ndjson")
    nsim = SIM[tier]
    sres = vlib.tlc("MC_Ring", os.path.basename(cfg), timeout=600, tags=("EDGE",), sinks={"EDGE": sim}, simulate=nsim,
                    depth=400, tag=f"MC_Ring_sim_{lab}", heap="2g")
    os.remove(cfg)
    if sres.get("timeout") or sres["errors"]:
        return dict(k=k, lab=lab, res=sres, st=None, rows=[])
    t1 = time.time()
    plan = os.path.join(ck.dir, f"plan_{lab}.ndjson")
    st = build_plan(edges, plan, k, sim)
    os.remove(sim)
    del_edges = os.path.getsize(edges)
    os.remove(edges)
    t2 = time.time()
    # one configuration's shards at a time (memory / CPU): cross-process lock
    import fcntl
    with open(os.path.join(ck.dir, "replay.lock"), "w") as lk:
        fcntl.flock(lk, fcntl.LOCK_EX)
        t2 = time.time()
        rows = run_harness(plan, os.path.join(ck.dir, f"replay_{lab}"), shards)
    vlib.log(f"[C20] {lab}: {st['states']} states {st['edges']} edges -> {st['cover_paths']}+{st['sim_paths']} schedules / {st['steps']} steps; "
             f"tlc {t1 - t0:.0f}s plan {t2 - t1:.0f}s replay {time.time() - t2:.0f}s")
    os.remove(plan)
    return dict(k=k, lab=lab, res=res, st=st, rows=rows)


def run(tier):
    ck = vlib.Check(PID, tier)
    tb = vlib.build_harness(["ring", "relay"])
    vlib.log(f"[C20] harness built in {tb:.0f}s")
    shards = 6 if tier == "thorough" else 4
    cfgs = CFG[tier]
    t0 = time.time()
    # liveness (TLC's slowest mode): every configuration in thorough, a representative subset in quick
    quick_live = {label_of(k) for k in (K(1, ""), K(1, "ss"), K(2, "st", stop=True), K(1, "s", "s"), K(1, "ss", cancel=1),
                                        K(1, "s", ncons=2), K(1, "ss", chan=True), K(2, "st", chan=True, cmax=1))}
    live_cfgs = [k for k in cfgs if tier == "thorough" or label_of(k) in quick_live]
    # biggest configurations first; everything (TLC safety+edges -> replay, TLC liveness, probes) shares one pool
    # configurations run in worker processes (building the schedules is CPU-bound Python), the rest in threads
    # at most ~5 JVMs at a time (each <= 1-2 GB), replay shards are a few MB each: a whole run stays under ~4 GB RSS
    with cf.ThreadPoolExecutor(max_workers=4 if tier == "quick" else 2) as ex, \
            cf.ProcessPoolExecutor(max_workers=6 if tier == "quick" else 3) as px:
        order = sorted(cfgs, key=lambda k: -(len(k["p1"]) + len(k["p2"]) + len(k["p3"]) + (2 if k["stop"] else 0)))
        futs = {label_of(k): px.submit(one_config, DirOnly(ck.dir), k, tier, shards) for k in order}
        pfuts = [(dev, k, inv, name, ex.submit(probe_witness, ck, dev, k, inv, name)) for dev, k, inv, name in PROBES]
        lfuts = [ex.submit(liveness, k, tier) for k in live_cfgs]
        sfut = ex.submit(stress, ck, tier)
        rfut = ex.submit(relay_engine, ck, tier)
        xfut = ex.submit(selector_engine, ck)
        mfuts = [ex.submit(mc_only, k) for k in CFG.get(tier + "_mc_only", [])]
        done = [futs[label_of(k)].result() for k in cfgs]
        st_out = sfut.result()
        rres, rrows = rfut.result()
        vlib.tlc_ok(rres, "relay (EXT)")
        ck.add_tlc(rres, "EXT MediaRelay: invariants + edges")
        rdiv = [r for r in rrows if r.get("type") == "divergence"]
        for r in rdiv[:2]:
            # beyond the listed property: DRIFT, never VIOLATION
            ck.drift.append({"rule": "EXT", "engine": "relay", "op": r["op"], "expected": r["expected"], "observed": r["observed"],
                             "ops": r["case"]["ops"]})
        ck.cov["ext_relay"] = {"cases": sum(r.get("cases", 0) for r in rrows if r.get("type") == "summary"),
                               "divergences": len(rdiv)}
        xres, xrows = xfut.result()
        vlib.tlc_ok(xres, "selector (EXT)")
        ck.add_tlc(xres, "EXT SelectorTrack: FollowsSwitch, Delivers + schedules")
        xdiv = [r for r in xrows if r.get("type") == "divergence"]
        for r in xdiv[:2]:
            ck.drift.append({"rule": "EXT", "engine": "selector", "kind": r.get("kind"), "expected": r.get("expected"),
                             "observed": r.get("observed"), "steps": r["case"]["steps"]})
        ck.cov["ext_selector"] = {"cases": sum(r.get("cases", 0) for r in xrows if r.get("type") == "summary"),
                                  "divergences": len(xdiv)}
        for f in mfuts:
            lab, res = f.result()
            vlib.tlc_ok(res, "model only " + lab)
            ck.add_tlc(res, "safety (model only) " + lab)
        lv = [f.result() for f in lfuts]
        pw = [(dev, k, inv, name) + f.result() for dev, k, inv, name, f in pfuts]
    vlib.log(f"[C20] TLC + replay done in {time.time() - t0:.0f}s")
    for lab, res in lv:
        # a liveness violation on the Deviations = {} model is a defect of the design the code follows
        if any("Temporal" in e or "violated" in e for e in res["errors"]):
            ck.divergence({"sub": "ring", "rule": "NoLostWakeup", "kind": "model-liveness", "cfg": lab},
                          {"detail": res["errors"], "tail": res["raw_tail"][-40:]})
        else:
            vlib.tlc_ok(res, "liveness " + lab)
        ck.add_tlc(res, "liveness " + lab)
    tot = {"edges": 0, "paths": 0, "steps": 0, "thread_steps": 0, "states": 0}
    exhaustive = True
    all_labels = set()
    for d in done:
        k, lab, res, st, rows = d["k"], d["lab"], d["res"], d["st"], d["rows"]
        vlib.tlc_ok(res, lab)
        ck.add_tlc(res, "safety+edges " + lab)
        ran = 0
        for r in rows:
            if r.get("type") == "divergence":
                r["cfg_label"] = lab
                ck.divergence(sig_of(r), r)
            elif r.get("type") == "summary":
                ran += r["paths"]
                all_labels.update(r["labels"])
        if ran != st["paths"] or not res["finished"] or res["counts"]["EDGE"] != st["edges"]:
            exhaustive = False
        for key in tot:
            tot[key] += st[key]
        if len(ck.cov["samples"]) < 4:
            ck.cov["samples"].append({"cfg": harness_cfg(k), "schedule": st["sample"]})
    # probes: counterexamples of the deviation-on models must not be executable on the real code
    plan = os.path.join(ck.dir, "plan_probes.ndjson")
    probes = []
    with open(plan, "w") as fh:
        for dev, k, inv, name, res, sched in pw:
            ck.add_tlc(res, f"probe {dev}/{inv}")
            if sched is None:
                raise vlib.ToolError(f"deviation {dev} does not violate {inv} on the model (selftest of the spec failed)")
            fh.write(json.dumps(harness_cfg(k)) + "\n")
            fh.write(json.dumps({"type": "sched", "id": name, "steps": sched, "through_race": name == "overwrite"}) + "\n")
            probes.append((dev, inv, name, sched))
    rows = run_harness(plan, os.path.join(ck.dir, "replay_probes"), 1)
    wit = {r["id"]: r for r in rows if r.get("type") == "witness"}
    for dev, inv, name, sched in probes:
        w = wit.get(name)
        if w is None:
            raise vlib.ToolError(f"no witness record for probe {name}")
        bad, rule, what = classify_witness(name, w)
        ck.notes.append({"probe": name, "deviation": dev, "followed": f"{w['followed']}/{w['of']}", "stopped": w["stopped"],
                         "reproduced": bad})
        if bad:
            rec = {"rule": rule, "kind": "witness", "deviation": dev, "what": what, "schedule": sched, "observed": w,
                   "cfg": w.get("cfg")}
            if name.startswith("chan_"):
                rec["variant"] = "chan"
            if rule == "NoLostWakeupStop":
                ck.drift.append({"rule": "EXT", "what": what, "deviation": dev})
            else:
                ck.divergence({"sub": "ring", "rule": rule, "kind": "witness", "deviation": dev,
                               "variant": "chan" if name.startswith("chan_") else "track"}, rec)
    os.remove(plan)
    ck.cov["stress"] = st_out
    ck.cov["traces_validated_against_impl"] = tot["paths"] + len(probes) + st_out["scenarios"]
    ck.cov["evaluations"] = tot["steps"]
    ck.cov["distinct_nontrivial"] = tot["thread_steps"]
    ck.cov["exhaustive"] = exhaustive
    ck.cov["labels_reached_in_code"] = sorted(all_labels)
    ck.cov["rule"] = ("every (state, thread-step) edge of each bounded Ring model is executed on real threads inside a complete "
                      "schedule (init -> teardown) by the baton scheduler; after every step label, head, tail, closed, ended, "
                      "active senders, both lock states, wake state, live payload buffers, call result, received sample and slot "
                      "window are compared with the model; distinct_nontrivial = distinct (state, thread-step) edges")
    ck.assumptions += [
        "bounded: capacities, producer programs (send / try_send / send_many of 2 / clone), shared or cloned handles, "
        "stop(), kept-alive handles as listed in tlc_runs; 1..3 producer threads, one consumer, <= 4 samples",
        "sequential consistency: weak-memory reorderings (an Ordering downgrade) are outside the specification",
        "each sched(label) point precedes exactly one shared-memory access; is_empty() (two loads) and the local "
        "full/empty tests are merged into one step",
        "tokio::sync::Notify is modelled (permit / generation / registered waiter) and its observable wake behaviour is "
        "compared with the real Notify at every step",
        "liveness is checked on the model (weak fairness); on the code it shows as the final state of every schedule",
    ]
    ck.finish()


def replay(path):
    """Re-run one recorded violation (its thread schedule) on the current tree."""
    ck = vlib.Check(PID, "quick")
    vlib.build_harness(["ring"])
    with open(path) as f:
        rec = json.load(f)["record"]
    sched = rec.get("schedule") or rec.get("sched") or []
    cfg = rec.get("cfg") or (rec.get("observed") or {}).get("cfg")
    if not cfg or not sched:
        raise vlib.ToolError("record carries no schedule")
    cfg = dict(cfg)
    cfg["type"] = "cfg"
    plan = os.path.join(ck.dir, "plan_replay_one.ndjson")
    with open(plan, "w") as fh:
        fh.write(json.dumps(cfg) + "\n")
        fh.write(json.dumps({"type": "sched", "id": "replay", "steps": sched}) + "\n")
    rows = run_harness(plan, os.path.join(ck.dir, "replay_one"), 1)
    names = {"NoSlotRace": "race", "MemSafe": "overwrite", "NoLostWakeup": "lostwakeup", "DrainThenEos": "earlyeos",
             "NoLostWakeupStop": "lostwakeup_stop"}
    for r in rows:
        if r.get("type") == "witness":
            print(json.dumps(r, indent=1))
            bad, rule, what = classify_witness(names.get(rec.get("rule"), ""), r)
            if bad:
                ck.divergence({"sub": "ring", "rule": rule, "kind": "witness"}, dict(rec, what=what, observed=r))
            elif r.get("race"):
                ck.divergence({"sub": "ring", "rule": r["race"][0]["rule"], "kind": "witness"}, dict(rec, observed=r))
            else:
                print(f"not reproduced: followed {r['followed']}/{r['of']} steps; {r['stopped']}")
    ck.cov.update(states=1, transitions=len(sched), traces_validated_against_impl=1, samples=[sched])
    ck.finish()


def selftest():
    """Negative controls on the model: each deviation-on model violates its invariant / liveness property."""
    ck = vlib.Check(PID + "-selftest", "quick")
    ok = True
    for dev, k, inv, name in PROBES:
        res, sched = probe_witness(ck, dev, k, inv, name)
        good = sched is not None
        print(f"selftest: Deviations={{{dev}}} violates {inv} on {label_of(k)}: {good} ({len(sched or [])} steps)")
        ok &= good
    k = K(1, "")
    cfg = os.path.join(vlib.SPEC, f"MC_Ring_selftest_live.{os.getpid()}.gen.cfg")
    write_cfg(cfg, k, deviations=("NotifiedAfterCheck",), invariants="", properties="CloseLeadsToEos")
    res = vlib.tlc("MC_Ring", os.path.basename(cfg), workers=2, timeout=600, tag="MC_Ring_selftest_live")
    os.remove(cfg)
    good = any("CloseLeadsToEos" in e or "Temporal" in e for e in res["errors"])
    print(f"selftest: Deviations={{NotifiedAfterCheck}} violates liveness CloseLeadsToEos: {good}")
    ok &= good
    # EXT engine: the pinned relay (feedback receiver not handed back) violates NoPanic on the model
    cfg = os.path.join(vlib.SPEC, f"MC_Relay_selftest.{os.getpid()}.gen.cfg")
    with open(cfg, "w") as f:
        f.write('SPECIFICATION Spec\nCONSTANTS\n  Subs = {1, 2}\n  MaxSend = 3\n  SrcCap = 2\n  RCap = 2\n  MaxLen = 9\n'
                '  Deviations = {"FeedbackRxNotRestored"}\nVIEW view\nINVARIANTS NoPanic\nACTION_CONSTRAINT NoEmit\nCHECK_DEADLOCK FALSE\n')
    res = vlib.tlc("MC_Relay", os.path.basename(cfg), workers=2, timeout=300, tag="MC_Relay_selftest", heap="1g")
    os.remove(cfg)
    good = any("NoPanic" in e for e in res["errors"])
    print(f"selftest: Relay Deviations={{FeedbackRxNotRestored}} violates NoPanic: {good}")
    ok &= good
    cfg = os.path.join(vlib.SPEC, f"MC_Selector_selftest.{os.getpid()}.gen.cfg")
    with open(cfg, "w") as f:
        f.write('SPECIFICATION Spec\nCONSTANTS\n  Deviations = {"SwitchNotifiedAfterRead"}\nINVARIANTS FollowsSwitch\nCHECK_DEADLOCK FALSE\n')
    res = vlib.tlc("MC_Selector", os.path.basename(cfg), workers=2, timeout=300, tag="MC_Selector_selftest", heap="1g")
    os.remove(cfg)
    good = any("FollowsSwitch" in e for e in res["errors"])
    print(f"selftest: Selector Deviations={{SwitchNotifiedAfterRead}} violates FollowsSwitch: {good}")
    ok &= good
    # non-vacuity: the situations the rules speak about are reachable in the quick configurations
    nv = {"NV_DropOldest": K(1, "ss"), "NV_TrylockFails": K(1, "ss"), "NV_WouldBlock": K(1, "s", "t", own=True),
          "NV_PopFindsEmpty": K(1, "ss"), "NV_Sleeps": K(1, "ss"), "NV_WakeupAnte": K(1, "ss"), "NV_DrainAnte": K(1, "ss"),
          "NV_EosByStopEarly": K(2, "st", stop=True), "NV_PermitPath": K(1, "ss"), "NV_GenerationPath": K(1, "ss"),
          "NV_RecheckNonEmpty": K(1, "s", "s"), "NV_RingDropFrees": K(2, "st", stop=True),
          "NV_DropNotLast": K(1, "sc", "s", own=True), "NV_ArcNotLast": K(1, "s", "s"), "NV_LockContended": K(1, "s", "s"),
          "NV_ConsumerBlocked": K(1, "ss"), "NV_CancelForwards": K(1, "ss", cancel=1),
          "NV_CancelRegistered": K(1, "ss", cancel=1), "NV_TwoWaiters": K(1, "s", ncons=2),
          "NV_OtherTookIt": K(1, "s", ncons=2), "NV_PartialMany": K(2, "m")}

    def one(name, k, expect_violation):
        cfg = os.path.join(vlib.SPEC, f"MC_Ring_{name}_{label_of(k)}.{os.getpid()}.gen.cfg")
        write_cfg(cfg, k, invariants=name)
        res = vlib.tlc("MC_Ring", os.path.basename(cfg), workers=2, timeout=600, tag=f"MC_Ring_{name}_{label_of(k)}", heap="2g")
        os.remove(cfg)
        hit = any(name in e for e in res["errors"])
        return name, hit == expect_violation, hit

    with cf.ThreadPoolExecutor(max_workers=6) as ex:
        futs = [ex.submit(one, n, k, True) for n, k in nv.items()]
        futs += [ex.submit(one, n, k, False) for n in ("Dead_SecondPushFull", "Dead_SenderSeesClosed")
                 for k in (K(1, "ss"), K(1, "s", "s"), K(2, "st", stop=True))]
        for f in futs:
            name, good, hit = f.result()
            print(f"selftest: {name}: {'reachable' if hit else 'unreachable'} -> {'ok' if good else 'UNEXPECTED'}")
            ok &= good
    # the binding binds: corrupt one expected field of a recorded edge -> the replay must diverge
    vlib.build_harness(["ring"])
    k = K(1, "ss")
    lab, res, edges = model_and_replay(ck, k, "quick", 1)
    plan = os.path.join(ck.dir, "plan_selftest.ndjson")
    build_plan(edges, plan, k)
    rows = [json.loads(l) for l in open(plan)]
    for field, val in (("tail", 7), ("lbl", "push_w"), ("live", 5), ("woken", True), ("ret", "WouldBlock")):
        mut = [dict(r) for r in rows]
        idx = [i for i, r in enumerate(mut) if r["type"] == "edge" and r["p"] != 0][len(mut) // 40]
        mut[idx] = dict(mut[idx], x=dict(mut[idx]["x"], **{field: val}))
        with open(plan, "w") as fh:
            for r in mut:
                fh.write(json.dumps(r) + "\n")
        out = run_harness(plan, os.path.join(ck.dir, "replay_selftest"), 2)
        div = [r for r in out if r.get("type") == "divergence" and r.get("field") == field]
        print(f"selftest: corrupted expectation {field} of edge {mut[idx]['i']} -> {len(div)} divergence(s) on that field")
        ok &= len(div) > 0
    os.remove(plan)
    os.remove(edges)
    raise SystemExit(0 if ok else 2)
