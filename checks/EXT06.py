"""EXT06 - RTCP reception bookkeeping of StatsCollector (src/stats_collector.rs): extended highest sequence number,
cumulative / fractional loss (RFC 3550 A.1, A.3), LSR of the report blocks it builds, the opportunistic Receiver Report,
round-trip time from LSR / DLSR. Specification growth beyond the listed properties: every finding is DRIFT (exit 0).

spec/StatsBook.tla + MC_StatsBook.tla, harness/src/bin/statsbook.rs. See checks/_ext.py for the common shape."""
import json
import os

import _ext
import vlib

PID = "EXT06"
PINNED = '{"LsrIsNtpLeast"}'
TIERS = {
    "quick": dict(contract_len=4, maxlen=4, sim=800, simdepth=14),
    "thorough": dict(contract_len=5, maxlen=5, sim=8000, simdepth=20),
}


def cfg_text(maxlen, deviations, emit=None, inv="Bounded ExtendedOk LsrMiddle RttRule", view=False):
    return f"""SPECIFICATION Spec
CONSTANTS
  Sources = {{1, 2}}
  Deltas = {{0, 1, 2, 3, 65535, 32767, 32768}}
  MaxLen = {maxlen}
  Deviations = {deviations}
{'VIEW view' if view else ''}
INVARIANTS {inv}
ACTION_CONSTRAINT {emit or 'NoEmit'}
CHECK_DEADLOCK FALSE
"""


def run(tier):
    ck = vlib.Check(PID, tier)
    vlib.build_harness(["statsbook"])
    t = TIERS[tier]
    big = 3000 if tier == "thorough" else 600
    res = _ext.tlc_plain("MC_StatsBook", cfg_text(t["contract_len"], "{}"), f"MC_StatsBook_{PID}_{tier}_contract", timeout=big, workers=8)
    vlib.tlc_ok(res, "contract, Deviations = {}")
    ck.add_tlc(res, "contract/Deviations={}")
    findings, files = {}, []
    for rule in ("LsrMiddle", "RttRule"):
        wf = os.path.join(ck.dir, f"witness_{tier}_{rule}.ndjson")
        cfgp = os.path.join(vlib.SPEC, f"MC_StatsBook_{PID}_{tier}_dev.gen.cfg")
        _ext.write(cfgp, cfg_text(4, PINNED, inv=f"Bounded W_{rule}"))
        r = vlib.tlc("MC_StatsBook", os.path.basename(cfgp), tags=("EDGE",), sinks={"EDGE": wf}, timeout=600, heap="4g",
                     tag=f"MC_StatsBook_{PID}_dev")
        os.remove(cfgp)
        findings[rule] = _ext.violated(r) or ["holds"]
        files.append(wf)
    ck.cov["pinned_vs_contract"] = findings
    for name, text, sim in [("bfs", cfg_text(t["maxlen"], PINNED, emit="EmitEdge", inv="Bounded", view=True), None),
                            ("sim", cfg_text(t["simdepth"], PINNED, emit="EmitEdge", inv="Bounded"), t["sim"])]:
        p = os.path.join(ck.dir, f"edges_{tier}_{name}.ndjson")
        rr = _ext.tlc_edges("MC_StatsBook", text, f"MC_StatsBook_{PID}_{tier}_{name}", p, timeout=big,
                            simulate=sim, depth=(t["simdepth"] + 1) if sim else None)
        ck.add_tlc(rr, f"G-{'sim' if sim else 'edge'}/pinned")
        files.append(p)
    allp = os.path.join(ck.dir, f"edges_{tier}.ndjson")
    n = _ext.dedup_edges(files, allp)
    for p in files:
        os.remove(p)
    rows, summ = _ext.replay_sharded("statsbook", allp, ck.dir, tier, shards=12, timeout=big)
    with open(allp) as f:
        for i, line in enumerate(f):
            if i in (30, 3000):
                ck.cov["samples"].append(json.loads(line))
            if i > 3000:
                break
    os.remove(allp)
    first = _ext.rows_to_drift(ck, rows)
    ck.cov.update(traces_validated_against_impl=summ.get("edges", 0), evaluations=summ.get("edges", 0),
                  distinct_nontrivial=n, field_checks=summ.get("checks", 0),
                  drift_signatures=summ.get("per_signature", {}), exhaustive=summ.get("edges", 0) == n)
    ck.cov["rule"] = ("every (state, call) edge of the bounded pinned StatsBook model (G-edge) and every step of random deep "
                      "behaviours (G-sim) is replayed on a fresh StatsCollector; report blocks (fraction, cumulative lost, "
                      "extended highest, decoded LSR), the opportunistic RR, packetsReceived / packetsLost and the presence of a "
                      "round-trip time compared with the model (class replay); RFC 3550 6.4.1 LSR and the RTT rule judged on "
                      "the real output (class contract)")
    ck.assumptions += [
        "EXT: beyond the listed properties; findings are DRIFT only",
        "two sources, sequence deltas {0,1,2,3,-1,32767,32768} from the highest seen, first number 65534; jitter, DLSR and "
        "the 3 s pacing of later opportunistic RRs depend on the wall clock and are not modelled; 64-SSRC eviction not reached",
    ]
    for (typ, field), rr in first.items():
        if typ == "panic":
            ck.notes.append(f"PANIC in code under test: {str(rr.get('observed'))[:200]}")
    ck.finish()


def replay(path):
    raise vlib.ToolError("EXT checks record no violation files")
