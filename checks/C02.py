"""C02 - a DTLS transport with an expected fingerprint connects only to the peer that presented the
certificate with that digest and proved possession of its key; otherwise it fails closed.

TLC checks Auth / AuthKey / FailClosed on the symbolic-crypto handshake model (DtlsHandshake.tla) with an
on-path adversary (MC_DtlsHandshake.tla: rewrites of certificate, key-exchange key, signature, randoms,
SRTP profile, ClientKeyExchange; omission with renumbering; reordering; injection of plaintext records;
impersonation by an endpoint holding the adversary's certificate) for both roles and expected fingerprint
none / match / mismatch, and for the key type of the certificate behind the expected fingerprint (EC / non-EC: with an
RSA or Ed25519 certificate no proof of possession can be verified and nobody may be connected to). TLC prints every adversary schedule with the outcomes the model allows; each
schedule is executed by the rewriting proxy between real DtlsTransports and the observation (state watch,
application-data receiver, export_keying_material) is compared with the model and with the property."""
import json
import os

import dtls_common as dc
import vlib

PID = "C02"
ADV = ["rw_cert", "rw_cert_pre", "rw_cert_app", "rw_ske_key", "rw_ske_sig", "rw_ske_full", "rw_crand", "rw_srand", "rw_prof", "rw_cke_key",
       "omit", "inj_app0", "inj_fin0", "inj_sh2", "inj_cert2", "inj_ske2"]
FP = ["none", "match", "mismatch"]
TICK_MS = 40
DEADLINE_MS = 700     # no liveness verdict here: the deadline only bounds how long a refused handshake lingers

# (label, fpcs, fpss, idcs, idss)
ROLE_CFGS = [
    ("client", FP, ["none"], ["certC"], ["certS", "certM", "stolen", "chain"]),
    ("server", ["match"], FP, ["certC", "certM", "stolen", "chain"], ["certS"]),
]
# Key type of the certificate behind the client's expected fingerprint as a configuration dimension (kS = "nonec": RSA /
# Ed25519). Nothing signed with such a key can be verified, so whoever presents the certificate - its owner, somebody
# replaying it with another key, alone or in a list - must never be connected to. All four server identities are
# model-checked under every adversary operation; the rig executes the ones it can build (it has no endpoint that signs
# with an Ed25519 / RSA key, and "certM" never shows the certificate at all).
NONEC_CFG = ("client_nonec", FP, ["none"], ["certC"], ["certS", "certM", "stolen", "chain"])
NONEC_EXECUTED = ("stolen", "chain")
NONEC_INV = ["NonEcNeverConnects", "NonEcClientFails"]
FULL_CFGS = [("all", FP, FP, ["certC", "certM", "stolen"], ["certS", "certM", "stolen"])]   # (chain: role families)


def _cfg(name):
    return os.path.join(vlib.SPEC, f"MC_DtlsHandshake_{name}_{os.getpid()}.gen.cfg")


def _run_tlc(ck, label, *, timeout=900, workers=6, tags=(), sinks=None, ok=True, **kw):
    path = _cfg(label)
    dc.write_mc_cfg(path, **kw)
    try:
        res = vlib.tlc("MC_DtlsHandshake", os.path.basename(path), workers=workers, timeout=timeout, tags=tags,
                       sinks=sinks, tag=f"c02_{label}", heap="6g")
    finally:
        try:
            os.remove(path)
        except OSError:
            pass
    if ok:
        vlib.tlc_ok(res, label)
        ck.add_tlc(res, label)
    return res


def fired_key(cfg, ops_fired):
    return dc.sched_id(cfg, ops_fired)


def tlc_op_of(h):
    """harness op (as reported back, with `fired`) -> TLC op record shape"""
    kind, k = h["kind"], 0
    arg = h.get("arg") or {}
    if kind == "hold":
        k = arg.get("k", 1)
    elif kind in ("merge", "coalesce"):
        k = arg.get("n", 2)
    elif kind == "split":
        k = 20 if "ranges" in arg else arg.get("n", 2)
    elif kind == "rw":
        kind = arg.get("what", "rw")
    return {"dir": h["dir"], "msg": h["msg"], "ord": h["ord"], "kind": kind, "k": k}


def evaluate(outcome, allowed_by_key):
    divs = []
    sc = outcome["scenario"]
    cfg = sc["cfg"]
    base = {"id": outcome["id"], "cfg": cfg, "ops": sc.get("tlc_ops"), "scenario": sc}
    if "panic" in outcome:
        return [({"sub": "dtls", "rule": "NoPanic"}, dict(base, panic=outcome["panic"]))], False
    obs = outcome["obs"]
    fin = obs["final"]
    role_name = {"C": "client", "S": "server"}
    fp_mode = {"C": cfg["fpC"], "S": cfg["fpS"]}
    peer_id = {"C": cfg["idS"], "S": cfg["idC"]}
    fired = [tlc_op_of(o) for o in outcome["ops"] if o["fired"]]
    allowed = allowed_by_key.get(fired_key(cfg, fired))
    compared = allowed is not None
    nonec = cfg.get("kS", "ec") == "nonec"
    key = {"key": "nonec"} if nonec else {}
    if nonec and fin["C"] == "Connected" and fp_mode["C"] == "match":
        # model-independent: no possession proof can be verified with the key of the expected certificate
        divs.append((dict({"sub": "dtls", "rule": "ClientAuthenticatesServer", "role": "client", "fp": "match", "by": "keytype"}, **key),
                     dict(base, obs=obs, note="Connected under an expected fingerprint whose certificate has a non-EC key: "
                                              "nothing the peer signed can have been verified")))
    for e in ("C", "S"):
        if fin[e] not in ("Connected", "Failed"):
            divs.append(({"sub": "dtls", "rule": "EndsConnectedOrFailed", "role": role_name[e], "state": fin[e]},
                         dict(base, obs=obs)))
        if fin[e] == "Connected":
            # model-independent reading of the statement
            if fp_mode[e] == "mismatch" or (fp_mode[e] == "match" and peer_id[e] in ("certM", "stolen", "chain")):
                rule = "ServerAuthenticatesClient" if e == "S" else "ClientAuthenticatesServer"
                divs.append((dict({"sub": "dtls", "rule": rule, "role": role_name[e], "fp": fp_mode[e], "by": "direct"}, **key),
                             dict(base, obs=obs, note="Connected although the peer cannot hold the expected certificate")))
            if compared:
                conn = [o for o in allowed if o["final"][e] == "Connected"]
                if not conn:
                    divs.append((dict({"sub": "dtls", "rule": "ConnectsOnlyWhenSpecAllows", "role": role_name[e],
                                       "fp": fp_mode[e]}, **key), dict(base, obs=obs, allowed=allowed)))
                elif not all(o["auth"][e] for o in conn):
                    rule = "ServerAuthenticatesClient" if e == "S" else "ClientAuthenticatesServer"
                    divs.append(({"sub": "dtls", "rule": rule, "role": role_name[e], "fp": fp_mode[e], "by": "model"},
                                 dict(base, obs=obs)))
        if fin[e] == "Failed":
            if obs.get(f"export_ok_{e}") or obs.get(f"stray_app_{e}", 0):
                divs.append(({"sub": "dtls", "rule": "FailClosed", "role": role_name[e],
                              "what": "export" if obs.get(f"export_ok_{e}") else "appdata"}, dict(base, obs=obs)))
    # model-free: a client that connected under an expected fingerprint to the genuine server endpoint shares its
    # keys with that endpoint (the server sent its Finished, so it is Connected, on the same keys) - otherwise the
    # keys are somebody else's, whatever was verified on the way
    if fin["C"] == "Connected" and fp_mode["C"] == "match" and peer_id["C"] == "certS" and \
            not (obs.get("both_connected") and obs.get("keys_equal") and obs.get("exporter_equal")):
        divs.append(({"sub": "dtls", "rule": "KeyBoundToAuthenticatedPeer", "role": "client", "fp": "match"},
                     dict(base, obs=obs)))
    if fin["C"] == "Connected" and fp_mode["C"] == "match" and obs.get("stray_app_C", 0):
        divs.append(({"sub": "dtls", "rule": "NoForeignAppData", "role": "client"}, dict(base, obs=obs)))
    if obs.get("both_connected"):
        if not (obs["keys_equal"] and obs["exporter_equal"]):
            divs.append(({"sub": "dtls", "rule": "KeyAgreement"}, dict(base, obs=obs)))
        if compared and not any(o["final"]["C"] == "Connected" and o["final"]["S"] == "Connected" for o in allowed):
            divs.append(({"sub": "dtls", "rule": "ConnectsOnlyWhenSpecAllows", "role": "both"},
                         dict(base, obs=obs, allowed=allowed)))
    return divs, compared


def run(tier):
    ck = vlib.Check(PID, tier)
    vlib.build_harness(["dtlshs"])
    thorough = tier == "thorough"
    d = ck.dir
    adv_budget = 1
    # (label, fpcs, fpss, idcs, idss, net kinds, net budget, adversary budget)
    if thorough:
        groups = [g + ([], 0, 1) for g in FULL_CFGS] + \
                 [(g[0] + "_net",) + g[1:] + (["hold1", "drop"], 1, 1) for g in ROLE_CFGS] + \
                 [(ROLE_CFGS[0][0] + "_adv2",) + ROLE_CFGS[0][1:] + ([], 0, 2)]          # pairs of adversary operations
    else:
        # client family with pairs of adversary operations (all model-checked, singles all executed, a fixed sample
        # of the pairs executed); server family with single operations
        groups = [ROLE_CFGS[0] + ([], 0, 2), ROLE_CFGS[1] + ([], 0, 1)]

    # 1. the intended design (client authentication included): Auth, AuthKey, FailClosed hold for both roles
    for label, fpcs, fpss, idcs, idss in (FULL_CFGS if thorough else ROLE_CFGS):
        _run_tlc(ck, f"design_{label}", spec="Spec", deviations=[], adv_kinds=ADV, adv_budget=adv_budget,
                 net_kinds=["hold1"], net_budget=1, max_ord=1, fpcs=fpcs, fpss=fpss, idcs=idcs, idss=idss, deadline=True,
                 invariants=["Auth", "AuthKey", "FailClosed", "KeyAgree"])
    label, fpcs, fpss, idcs, idss = NONEC_CFG
    _run_tlc(ck, f"design_{label}", spec="Spec", deviations=[], adv_kinds=ADV, adv_budget=adv_budget,
             net_kinds=["hold1"], net_budget=1, max_ord=1, fpcs=fpcs, fpss=fpss, idcs=idcs, idss=idss, kindss=["nonec"],
             deadline=True, invariants=["Auth", "AuthKey", "FailClosed", "KeyAgree"] + NONEC_INV)
    # 2. the pinned tree's model (server does not authenticate the client: open finding): the client-role rule
    #    and FailClosed hold; schedules and allowed outcomes are emitted
    sched_rows, out_rows = [], []
    exhaustive = True
    if thorough:
        # the intended design also under pairs of adversary operations (role families)
        for label, fpcs, fpss, idcs, idss in ROLE_CFGS:
            _run_tlc(ck, f"design_{label}_adv2", spec="Spec", deviations=[], adv_kinds=ADV, adv_budget=2, max_ord=1,
                     fpcs=fpcs, fpss=fpss, idcs=idcs, idss=idss, deadline=True,
                     invariants=["Auth", "AuthKey", "FailClosed", "KeyAgree"], timeout=2400)
    groups = [g + (["ec"],) for g in groups] + [NONEC_CFG + ((["hold1", "drop"], 1, 1) if thorough else ([], 0, 1)) + (["nonec"],)]
    for label, fpcs, fpss, idcs, idss, net_kinds, net_budget, group_adv, kindss in groups:
        s1 = os.path.join(d, f"sched_{label}.ndjson")
        o1 = os.path.join(d, f"out_{label}.ndjson")
        r = _run_tlc(ck, f"pinned_{label}", spec="Spec", deviations=dc.OPEN_DEVIATIONS, adv_kinds=ADV, adv_budget=group_adv,
                     net_kinds=net_kinds, net_budget=net_budget, max_ord=2 if net_budget else 1, fpcs=fpcs, fpss=fpss,
                     idcs=idcs, idss=idss, kindss=kindss,
                     deadline=True, invariants=["AuthClient", "AuthKeyClient", "FailClosed", "KeyAgree", "EmitOutcome"]
                     + (NONEC_INV if kindss == ["nonec"] else []),
                     emit="EmitSched", tags=("SCHED", "OUT"), sinks={"SCHED": s1, "OUT": o1}, workers=1, timeout=2400)
        exhaustive = exhaustive and r["finished"]
        sched_rows += vlib.read_ndjson(s1)
        out_rows += vlib.read_ndjson(o1)
        os.remove(s1)
        os.remove(o1)
    # 3. and the model says why the server role is an open finding: Auth fails with the deviation on
    r = _run_tlc(ck, "pinned_auth_server", ok=False, spec="Spec", deviations=dc.OPEN_DEVIATIONS, adv_kinds=[], adv_budget=0,
                 fpcs=["match"], fpss=["match", "mismatch"], idcs=["certC"], idss=["certS"], deadline=True, invariants=["Auth"])
    model_server_gap = any("Auth" in e for e in r["errors"])

    allowed = {}
    for o in out_rows:
        allowed.setdefault(dc.sched_id(o["cfg"], o["ops"]), [])
        rec = {"final": o["final"], "keysEq": o["keysEq"], "auth": o["auth"], "appGot": o["appGot"]}
        if rec not in allowed[dc.sched_id(o["cfg"], o["ops"])]:
            allowed[dc.sched_id(o["cfg"], o["ops"])].append(rec)
    scenarios = dc.scenarios_from_sched(sched_rows, TICK_MS, DEADLINE_MS)
    n_nonec = sum(1 for x in scenarios if x["kS"] == "nonec")
    scenarios = [x for x in scenarios if x["kS"] != "nonec" or x["idS"] in NONEC_EXECUTED]
    ck.notes.append(f"non-EC key of the expected certificate: {n_nonec} schedules model-checked (4 server identities), "
                    f"{sum(1 for x in scenarios if x['kS'] == 'nonec')} executed (identities {list(NONEC_EXECUTED)}; Ed25519 / RSA certificate)")
    if not thorough:
        multi = [x for x in scenarios if len(x["tlc_ops"]) > 1]
        keep = {x["id"] for x in multi[:: max(1, len(multi) // 120)][:120]}       # ids are content hashes: a fixed sample
        scenarios = [x for x in scenarios if len(x["tlc_ops"]) <= 1 or x["id"] in keep]
        ck.notes.append(f"pairs of adversary operations: {len(multi)} model-checked, {len(keep)} executed")
    outcomes = dc.run_scenarios(ck, scenarios, tier, nproc=16 if not thorough else 12, timeout=900 if not thorough else 3000)
    # An endpoint that is still New/Handshaking when the harness gave up (deadline + 12 s) was starved of CPU, not
    # judged: those schedules are run again on their own, twice if need be, before anything is said about them.
    def unsettled(o):
        return "panic" not in o and any(o["obs"]["final"][e] not in ("Connected", "Failed", "Closed") for e in ("C", "S"))
    for attempt in range(2):
        redo = [i for i, o in enumerate(outcomes) if unsettled(o)]
        if not redo:
            break
        ck.notes.append(f"{len(redo)} schedules had not settled when the harness stopped waiting (machine load); rerun {attempt + 1}")
        again = dc.run_scenarios(ck, [outcomes[i]["scenario"] for i in redo], f"{tier}_redo{attempt}", nproc=2, timeout=1800)
        for i, o in zip(redo, again):
            outcomes[i] = o

    compared = 0
    unfired = 0
    nontrivial = set()
    server_gap_ids = set()
    for o in outcomes:
        divs, cmp_ = evaluate(o, allowed)
        compared += 1 if cmp_ else 0
        for sig, rec in divs:
            ck.divergence(sig, rec)
            if sig.get("rule") == "ServerAuthenticatesClient":
                server_gap_ids.add(o["id"])
        if "panic" not in o:
            unfired += sum(1 for op in o["ops"] if not op["fired"])
            if any(op["fired"] for op in o["ops"]) or o["scenario"]["cfg"]["idS"] != "certS" or o["scenario"]["cfg"]["idC"] != "certC" \
                    or "mismatch" in (o["scenario"]["cfg"]["fpC"], o["scenario"]["cfg"]["fpS"]) or o["scenario"]["cfg"].get("kS") == "nonec":
                nontrivial.add(o["id"])

    # 3b. PeerConnection level: the expected fingerprint as set_remote_description extracts it from the answer's
    #     a=fingerprint attributes (session level / media level, presentations of the genuine digest, foreign and
    #     near-miss digests, conflicts, unsupported algorithm, none). SdpFingerprint.tla states the contract and TLC
    #     enumerates every placement; each runs between two real PeerConnections (the offerer is the DTLS client).
    cs = os.path.join(d, "sdp_cases.ndjson")
    rsdp = vlib.tlc("SdpFingerprint", "SdpFingerprint.cfg", workers=1, timeout=300, tags=("CASE",), sinks={"CASE": cs},
                    tag="c02_sdp")
    vlib.tlc_ok(rsdp, "SdpFingerprint")
    ck.add_tlc(rsdp, "sdp_fingerprint")
    cases = {}
    for c in vlib.read_ndjson(cs):
        cases[f"sdp-{c['session']}-{c['media']}-{c['media2']}"] = c
    os.remove(cs)
    pc_cases = [dict(c, id=k) for k, c in sorted(cases.items())]
    pc_out = dc.run_scenarios(ck, pc_cases, tier + "_pc", nproc=12, timeout=900, sub="pc")
    bad_rig = [o["id"] for o in pc_out if "panic" not in o and o["obs"].get("media_sections") not in (None, 2)]
    if bad_rig:
        raise vlib.ToolError(f"PeerConnection rig did not produce two media sections: {bad_rig[:3]}")
    pc_connected = 0
    for o in pc_out:
        c = o["case"]
        base = {"id": o["id"], "case": c, "scenario": dict(c, pc=True)}
        if "panic" in o:
            ck.divergence({"sub": "dtls", "rule": "NoPanic", "level": "pc"}, dict(base, panic=o["panic"]))
            continue
        ob = o["obs"]
        exp = c["expected"]
        pc_connected += 1 if ob["connected"] else 0
        if (ob["connected"] or "A" in ob.get("dtls_connected", [])) and exp != "Connected":
            ck.divergence({"sub": "dtls", "rule": "ClientAuthenticatesServer", "role": "client", "by": "sdp",
                           "session": c["session"], "media": c["media"], "media2": c["media2"]}, dict(base, obs=ob))
        elif exp == "Connected" and not ob["connected"]:
            ck.drift.append({"rule": "GenuineFingerprintConnects", "case": c, "obs": {k: ob.get(k) for k in ("set_remote", "state_A", "dtls_failed")}})
        elif exp == "Rejected" and ob.get("set_remote") == "ok":
            ck.drift.append({"rule": "AmbiguousFingerprintRefused", "case": c, "obs": {k: ob.get(k) for k in ("set_remote", "state_A", "dtls_failed")}})
    ck.notes.append(f"PeerConnection level: {len(pc_out)} a=fingerprint placements executed, {pc_connected} connected "
                    f"(exactly those the contract allows unless reported)")

    # 4. trace validation: every step of every recorded run is a step of the specification (rule Auth: Connected
    #    and the cert / ske events only in states where the specification has authenticated the peer)
    #    Runs in which the outcome oracle has already reported the server-role finding are validated with the
    #    server-side Auth guard off, so that the rest of their steps is still checked.
    grp_b = [o for o in outcomes if o["id"] in server_gap_ids]
    grp_a = [o for o in outcomes if o["id"] not in server_gap_ids]
    accepted, rejections, tres = dc.validate_traces(ck, grp_a, dc.OPEN_DEVIATIONS, tier)
    if grp_b:
        a2, r2, t2 = dc.validate_traces(ck, grp_b, dc.OPEN_DEVIATIONS, tier + "_b",
                                        props=[p for p in dc.ALL_RULES if p != "AuthServer"])
        accepted, rejections, tres = accepted + a2, rejections + r2, tres + t2
    for r in tres:
        ck.add_tlc(r, "trace_validation")
    by_id = {o["id"]: o for o in outcomes}
    for rj in rejections:
        sc = by_id[rj["id"]]["scenario"]
        rec = {"id": rj["id"], "cfg": sc["cfg"], "ops": sc.get("tlc_ops"), "rule": rj["rule"], "event": rj["event"],
               "before": rj["before"], "scenario": sc}
        if rj["rule"] in ("Auth", "AuthServer", "ConnectedOnlyWhenSpecConnects", "KeyAgreement"):
            role = "server" if rj["event"].get("inst") == "S" else "client"
            ck.divergence({"sub": "dtls", "rule": "Trace" + rj["rule"], "role": role, "ev": rj["event"]["ev"]}, rec)
        else:
            ck.drift.append({"rule": rj["rule"], "event": rj["event"], "id": rj["id"], "cfg": sc["cfg"], "ops": sc.get("tlc_ops")})

    dc.finish_validation(ck)
    ck.cov["traces_validated_against_impl"] = len(outcomes) + accepted + len(pc_out)
    ck.cov["evaluations"] = len(outcomes) + len(pc_out)
    ck.cov["distinct_nontrivial"] = len(nontrivial)
    ck.cov["rule"] = ("a case = (expected fingerprint of client and of server in none/match/mismatch, certificate each endpoint "
                      "really holds, adversary schedule printed by TLC) executed by the rewriting proxy between two real "
                      "DtlsTransports; the expected fingerprint is fed through SessionDescription::dtls_fingerprint. Compared: "
                      "final states against the outcomes the model allows for that schedule, Auth of the matching model "
                      "outcome, FailClosed (no export, no application data on a Failed transport), key agreement. "
                      "Non-trivial = an adversary operation fired, or an endpoint holds the adversary's certificate, or a "
                      "mismatching fingerprint is expected.")
    ck.cov["exhaustive"] = exhaustive
    ck.cov["samples"] = [{"cfg": o["scenario"]["cfg"], "ops": o["scenario"].get("tlc_ops"), "final": o["obs"]["final"]}
                         for o in outcomes[:3] + outcomes[len(outcomes) // 2:len(outcomes) // 2 + 4] if "panic" not in o]
    ck.notes.append(f"{len(scenarios)} schedules executed, {compared} compared with model outcomes, ops that did not fire: {unfired}; "
                    f"trace validation: {accepted} accepted, {len(rejections)} rejected; "
                    f"model shows the server-role gap (Auth violated with ServerSkipsClientAuth): {model_server_gap}")
    ck.assumptions += [
        "bounds: one adversary operation per handshake on first transmissions (quick: client-role and server-role "
        "configuration families; thorough: full 3x3x2x2 configuration product and one additional drop/reorder)",
        "symbolic cryptography: signatures cannot be forged, DH shares are opaque; the adversary owns one certificate/key",
        "the adversary does not complete a handshake of its own through rewriting (that case is the impersonation "
        "configuration: an endpoint that really holds the adversary's certificate)",
        "trusted: TLC, the proxy's parsing and rewriting of epoch-0 records, loopback UDP ordering",
    ]
    ck.finish()


def replay(path):
    ck = vlib.Check(PID, "quick")
    vlib.build_harness(["dtlshs"])
    with open(path) as f:
        rec = json.load(f)["record"]
    sc = rec["scenario"]
    if sc.get("pc"):
        o = dc.run_scenarios(ck, [dict(sc, id="replay")], "replay_pc", nproc=1, sub="pc")[0]
        if "panic" not in o and (o["obs"]["connected"] or "A" in o["obs"].get("dtls_connected", [])) and sc.get("expected") != "Connected":
            ck.divergence({"sub": "dtls", "rule": "ClientAuthenticatesServer", "role": "client", "by": "sdp",
                           "session": sc["session"], "media": sc["media"], "media2": sc.get("media2")},
                          {"scenario": sc, "obs": o["obs"]})
        ck.cov.update(states=1, transitions=1, traces_validated_against_impl=1, samples=[sc])
        ck.finish()
    outcomes = dc.run_scenarios(ck, [sc], "replay", nproc=1)
    for o in outcomes:
        divs, _ = evaluate(o, {})
        for sig, r in divs:
            ck.divergence(sig, r)
    ck.cov.update(states=1, transitions=1, traces_validated_against_impl=len(outcomes), samples=[sc])
    ck.finish()


def selftest():
    """Negative controls on the model: each weakened check violates Auth."""
    ok = True
    for dev, inv, kinds in ((["ServerSkipsClientAuth"], "Auth", ["ec"]),
                            (["ServerSkipsClientAuth", "FingerprintAnyInChain"], "AuthClient", ["ec"]),
                            (["ServerSkipsClientAuth", "SkeShareBeforeVerify"], "AuthKeyClient", ["ec"]),
                            (["ServerSkipsClientAuth", "NonEcKeySkipsProof"], "AuthClient", ["nonec"]),
                            (["ServerSkipsClientAuth", "NonEcKeySkipsProof"], "AuthKeyClient", ["nonec"]),
                            (["ServerSkipsClientAuth", "NonEcKeySkipsProof"], "NonEcNeverConnects", ["nonec"])):
        path = _cfg("selftest")
        dc.write_mc_cfg(path, spec="Spec", deviations=dev, adv_kinds=ADV, adv_budget=1, max_ord=1, fpcs=FP, fpss=FP,
                        idcs=["certC", "certM", "stolen", "chain"], idss=["certS", "certM", "stolen", "chain"], kindss=kinds,
                        deadline=True, invariants=[inv])
        res = vlib.tlc("MC_DtlsHandshake", os.path.basename(path), workers=6, timeout=900, tag="c02_selftest")
        os.remove(path)
        hit = any(inv in e for e in res["errors"])
        print(f"selftest: deviation {dev} violates {inv} on the model: {hit}")
        ok = ok and hit
    raise SystemExit(0 if ok else 2)
