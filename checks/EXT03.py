"""EXT03 - UDPTL for T.38 (src/transports/udptl.rs): sender sequence numbers and redundancy on the wire, receiver
reordering / duplicates / redundancy recovery. Specification growth beyond the listed properties: every finding is
DRIFT (exit 0); nothing here can print VIOLATION.

spec/Udptl.tla + MC_Udptl.tla, harness/src/bin/udptl.rs. See checks/_ext.py for the common shape."""
import json
import os

import _ext
import vlib

PID = "EXT03"
RULES = ["InOrderNoDup", "NoDiscard", "NoStall", "Genuine"]

TIERS = {
    "quick": dict(n=5, maxlen=5, contract_len=6, sim=3000, simdepth=12, maxsizes="{2, 128}"),
    "thorough": dict(n=6, maxlen=6, contract_len=7, sim=40000, simdepth=20, maxsizes="{1, 2, 128}"),
}


def cfg_text(t, design, maxlen, emit=None, inv="Bounded", props="", gaps="{1}", maxsizes="{128}", starts="{1, 65534}",
             depths="{0, 1, 2}", view=False, n=None):
    return f"""SPECIFICATION Spec
CONSTANTS
  Design = "{design}"
  N = {n or t['n']}
  Depths = {depths}
  Starts = {starts}
  MaxSizes = {maxsizes}
  Gaps = {gaps}
  MaxLen = {maxlen}
{'VIEW view' if view else ''}
INVARIANTS {inv}
{('PROPERTIES ' + props) if props else ''}
ACTION_CONSTRAINT {emit or 'NoEmit'}
CHECK_DEADLOCK FALSE
"""


def run(tier):
    ck = vlib.Check(PID, tier)
    vlib.build_harness(["udptl"])
    t = TIERS[tier]
    big = 3000 if tier == "thorough" else 600
    # 1. the reference design satisfies the contract (every history, no VIEW)
    res = _ext.tlc_plain("MC_Udptl", cfg_text(t, "intended", t["contract_len"],
                                              inv="Bounded InOrderNoDup NoDiscard NoStall Genuine", props="Recovery"),
                         f"MC_Udptl_{PID}_{tier}_contract", timeout=big, workers=8)
    vlib.tlc_ok(res, "contract, Design = intended")
    ck.add_tlc(res, "contract/intended")
    # 2. the pinned design against each rule, with printed witnesses
    findings, witness_files = {}, []
    for rule in RULES + ["Recovery"]:
        wf = os.path.join(ck.dir, f"witness_{tier}_{rule}.ndjson")
        cfgp = os.path.join(vlib.SPEC, f"MC_Udptl_{PID}_{tier}_dev.gen.cfg")
        if rule == "Recovery":
            text = cfg_text(t, "pinned", 5, emit="W_Recovery")
        else:
            text = cfg_text(t, "pinned", 6, inv=f"Bounded W_{rule}")
        _ext.write(cfgp, text)
        r = vlib.tlc("MC_Udptl", os.path.basename(cfgp), tags=("EDGE",), sinks={"EDGE": wf}, timeout=600, heap="4g",
                     tag=f"MC_Udptl_{PID}_dev")
        os.remove(cfgp)
        found = _ext.violated(r)
        if rule == "Recovery" and r["counts"]["EDGE"]:
            found = [f"Action property Recovery is violated ({r['counts']['EDGE']} steps)."]
        findings[rule] = found or ["holds on the pinned design within the bound"]
        rows = vlib.read_ndjson(wf)[:20]
        for w in rows:
            w["nocompare"] = False        # same design as the replayed edges: compare as well
        vlib.write_ndjson(wf, rows)
        witness_files.append(wf)
    ck.cov["pinned_design_vs_contract"] = findings
    # 3. pinned design: transition cover (incl. a burst-loss stride reaching cleanup_stale, small buffers, wire cases)
    files = []
    runs = [("bfs", cfg_text(t, "pinned", t["maxlen"], emit="EmitEdge", inv="Bounded EmitWire", maxsizes=t["maxsizes"], view=True), None),
            ("stride", cfg_text(t, "pinned", t["maxlen"], emit="EmitEdge", gaps="{40}", depths="{0}", view=True), None),
            ("sim", cfg_text(t, "pinned", t["simdepth"], emit="EmitEdge", maxsizes=t["maxsizes"], n=t["n"] + 3), t["sim"])]
    for name, text, sim in runs:
        p = os.path.join(ck.dir, f"edges_{tier}_{name}.ndjson")
        r = _ext.tlc_edges("MC_Udptl", text, f"MC_Udptl_{PID}_{tier}_{name}", p, timeout=big,
                           simulate=sim, depth=(t["simdepth"] + 1) if sim else None)
        ck.add_tlc(r, f"G-{'sim' if sim else 'edge'}/pinned/{name}")
        files.append(p)
    allp = os.path.join(ck.dir, f"edges_{tier}.ndjson")
    n = _ext.dedup_edges(files + witness_files, allp)
    for p in files + witness_files:
        os.remove(p)
    # 4. replay
    rows, summ = _ext.replay_sharded("udptl", allp, ck.dir, tier, shards=12, timeout=big)
    with open(allp) as f:
        for i, line in enumerate(f):
            if i in (40, 3000):
                ck.cov["samples"].append(json.loads(line))
            if i > 3000:
                break
    os.remove(allp)
    first = _ext.rows_to_drift(ck, rows)
    ck.cov.update(traces_validated_against_impl=summ.get("edges", 0), evaluations=summ.get("edges", 0),
                  distinct_nontrivial=n, field_checks=summ.get("checks", 0),
                  drift_signatures=summ.get("per_signature", {}),
                  exhaustive=summ.get("edges", 0) == n)
    ck.cov["rule"] = ("every (state, datagram) edge of the bounded pinned receiver model (G-edge) and every step of random "
                      "deep arrival sequences (G-sim) is replayed on a fresh UdtlReceiveBuffer through try_deliver; "
                      "returned payload, expected_seq, buffered_count, statistics and last_delivered_seq compared with the "
                      "model (class replay); InOrderNoDup / NoDiscard / Recovery / NoStall / Genuine judged on the real "
                      "output (class contract); sender cases over loopback sockets with an independent datagram reader")
    ck.assumptions += [
        "EXT: beyond the listed properties; findings are DRIFT only",
        "network = any order / duplication / loss of N datagrams; first sequence number 1 or 65534; redundancy depth "
        "0..2; stride 40 stands for a burst loss",
        "the 'intended' design is a reference reading of the module's documentation, not a normative text",
    ]
    for (typ, field), r in first.items():
        if typ == "panic":
            ck.notes.append(f"PANIC in code under test: {str(r.get('observed'))[:200]}")
    ck.finish()


def replay(path):
    raise vlib.ToolError("EXT checks record no violation files")
