"""C07 - no bytes from the network or signaling peer can crash, hang or bloat the stack.

Inputs.tla holds the wire grammar of every entry point as data, the connection-state dimension of the
live endpoints and the totality contract. TLC checks the contract on the model and enumerates every
entry x phase x template x field x mutation class; the harness (`inputs`) concretises each class from a
genuine message through the grammar table TLC printed and executes it on the real decoder / endpoint.
Level: exploration (model-generated shape classes, not all byte strings)."""
import concurrent.futures
import json
import os
import time
import vlib

PID = "C07"

ALL_MUTS = ["trunc_before", "trunc_before_fix", "trunc_inside", "trunc_inside_fix", "len_0", "len_m1", "len_p1",
            "len_max", "count_0", "count_p1", "count_max", "tag_unknown", "val_0", "val_max", "dup", "dup_fill", "dup_fill_empty", "empty",
            "list_plus1", "list_minus1", "swap", "nest", "seq_m1", "seq_p1", "seq_p2", "seq_p32768", "seq_half",
            "lst_empty_mid", "lst_lead", "lst_trail", "lst_only_sep", "lst_multibyte", "lst_multibyte_first", "lst_prefix_only",
            "lst_many", "lst_long",
            # a backwards count at the end of a group (pad count) relative to the enclosing lengths (Inputs.tla RelMuts)
            "rel_g_m4", "rel_g_m3", "rel_g_m2", "rel_g_m1", "rel_g_0", "rel_g_p1", "rel_g_p2", "rel_g_p3", "rel_g_p4",
            "rel_e_m4", "rel_e_m3", "rel_e_m2", "rel_e_m1", "rel_e_0", "rel_e_p1"]

DECODERS = ["rtp", "rtcp", "stun", "dtls_record", "dtls_hsmsg", "dtls_clienthello", "dtls_serverhello", "dtls_hvr",
            "dtls_ske", "dtls_cert", "dtls_cke", "dtls_finished", "dcep", "sdp", "candidate"]

# groups of entry points run as separate TLC + harness passes (label, entries, MaxFeeds, shards)
# live endpoints, grouped so that each TLC emission run stays short
LIVE_ICE = ["turn_udp", "turn_tcp", "ice_udp", "ice_tcp"]
LIVE_MEDIA = ["rtp_transport", "udptl", "pc_rtp"]
LIVE_DTLS = ["dtls_server", "dtls_client"]
LIVE_SCTP = ["sctp"]
LIVE_PC = ["pc_sdp", "pc_candidate", "pc_webrtc"]

ALL_LIVE = LIVE_ICE + LIVE_DTLS + LIVE_SCTP + LIVE_PC + LIVE_MEDIA

# passes: (label, entries, MaxFeeds, shards, simulate) - simulate = None: complete BFS of the class space (one input per
# behaviour, every entry x phase x class); simulate = (N, depth): TLC simulation with two inputs per behaviour, every
# out-edge of every visited state printed with its real history (sequences of inputs)
TIERS = {
    "quick": [("decoders", DECODERS, 1, 4, None), ("ice", LIVE_ICE, 1, 8, None), ("dtls", LIVE_DTLS, 1, 8, None),
              ("sctp", LIVE_SCTP, 1, 8, None), ("pc", LIVE_PC, 1, 8, None), ("media", LIVE_MEDIA, 1, 8, None),
              ("seq", ALL_LIVE, 2, 8, (6, 5))],
    "thorough": [("decoders", DECODERS, 1, 8, None), ("ice", LIVE_ICE, 1, 8, None), ("dtls", LIVE_DTLS, 1, 8, None),
                 ("sctp", LIVE_SCTP, 1, 8, None), ("pc", LIVE_PC, 1, 8, None), ("media", LIVE_MEDIA, 1, 8, None),
                 ("seq", ALL_LIVE, 2, 8, (40, 6))],
}
VARIANTS = {"quick": 2, "thorough": 6}

# Non-vacuity of the binding: for these (entry, phase) the genuine message of the template is what the endpoint expects
# next (or has an unconditional observable effect: delivery to a listener, acceptance of the description, an answered
# sentinel); if it shows no effect, the harness no longer reaches the code and the run is void (tool error).
IN_PHASE = {
    ("dtls_server", "pre"): ["dg.clienthello"], ("dtls_client", "mid"): ["dg.serverhello", "dg.cert", "dg.ske", "dg.shd"],
    ("dtls_server", "est"): ["dg.opaque"], ("dtls_client", "est"): ["dg.opaque"],
    ("sctp", "pre"): ["sctp.init", "sctp.init_ack"], ("sctp", "mid"): ["sctp.cookie_echo", "sctp.cookie_ack"],
    ("sctp", "est"): ["sctp.data", "sctp.sack", "sctp.heartbeat"],
}
ALWAYS_EFFECT = {"rtp_transport", "pc_sdp", "pc_candidate", "ice_udp", "turn_udp", "pc_rtp", "pc_webrtc"}

OK_RES = {"value", "error"}
# inapplicable: the class has no concrete instance on the genuine message; unreachable: the history (an earlier input,
# then genuine progress) does not exist on the implementation because the earlier input was acted upon
SKIP_RES = {"inapplicable", "unreachable"}


def tla_set(xs):
    return "{" + ", ".join('"%s"' % x for x in xs) + "}"


def write_cfg(path, entries, muts, maxfeeds, emit=True, deviations=(), sim=False):
    with open(path, "w") as f:
        f.write(f"""SPECIFICATION Spec
CONSTANTS
  Entries = {tla_set(entries)}
  Muts = {tla_set(muts)}
  MaxFeeds = {maxfeeds}
  Deviations = {tla_set(deviations)}
VIEW view
INVARIANTS TypeOK NoCrash{'' if sim else ' InputEnabled'}
PROPERTIES TotalStep
ACTION_CONSTRAINT {('EmitCaseSim' if sim else 'EmitCase') if emit else 'NoEmit'}
CHECK_DEADLOCK FALSE
""")


def sig_of(o):
    return {"sub": "inputs", "entry": o["entry"], "field": o["field"], "mutation": o["mut"], "kind": o["res"],
            "tpl": o["tpl"], "phase": o.get("phase")}


def run_shard(args):
    """One harness process per shard. Exit code 3 = the watchdog ended the process inside a case that did not
    return (recorded in <out>.abort): the verdict for that case is `hang`, and the shard resumes after it."""
    grammar, cases, out, shard, n, variants = args
    env = {"VERIF_VARIANTS": str(variants)}
    hangs = []
    for _ in range(50):
        p = vlib.run_bin("inputs", [grammar, cases, out, f"{shard}/{n}"], timeout=3000, env=env)
        if p.returncode != 3:
            return shard, p.returncode, p.stderr[-2000:], hangs
        with open(out + ".abort") as f:
            ab = json.load(f)
        hangs.append(ab)
        env["VERIF_FROM"] = str(ab["case"] + 1)
    return shard, 3, "too many aborted cases", hangs


def execute(ck, label, grammar, cases, nshards, variants):
    outs = [os.path.join(ck.dir, f"obs_{label}_{i}.ndjson") for i in range(nshards)]
    with concurrent.futures.ThreadPoolExecutor(max_workers=nshards) as ex:
        aborted = []
        for shard, rc, err, hangs in ex.map(run_shard, [(grammar, cases, outs[i], i, nshards, variants) for i in range(nshards)]):
            if rc != 0:
                raise vlib.ToolError(f"inputs harness shard {shard} failed rc={rc}: {err}")
            aborted += hangs
    rows = []
    case_rows = vlib.read_ndjson(cases)
    for ab in aborted:
        c = case_rows[ab["case"]]
        # a step that does not return is reported only if it does not return three times, the last two with nothing
        # else of this check running
        one = os.path.join(ck.dir, f"cases_{label}_confirm.ndjson")
        vlib.write_ndjson(one, [c])
        confirmed = True
        for k in range(2):
            out1 = os.path.join(ck.dir, f"obs_{label}_confirm.ndjson")
            p = vlib.run_bin("inputs", [grammar, one, out1, "0/1"], timeout=3000, env={"VERIF_VARIANTS": str(variants)})
            if p.returncode == 0:
                for r in vlib.read_ndjson(out1):
                    if r["type"] == "obs":
                        r["case"] = ab["case"]
                        r["note"] = "first attempt was ended by the watchdog; completed when run alone"
                        rows.append(r)
                confirmed = False
                break
            if p.returncode != 3:
                raise vlib.ToolError(f"confirmation run failed rc={p.returncode}: {p.stderr[-500:]}")
        if not confirmed:
            continue
        rows.append({"type": "obs", "case": ab["case"], "entry": c["entry"], "phase": c["phase"], "tpl": c["tpl"],
                     "field": c["field"], "mut": c["mut"], "res": "hang",
                     "detail": f"the step did not return (three attempts): {ab['cpu_ms']} ms user CPU / {ab['wall_ms']} ms wall ({ab['kind']}); process ended by the watchdog"})
    for o in outs:
        rows += vlib.read_ndjson(o)
    return rows


def classify(ck, rows, case_rows, stats):
    """Compare every observation with what the contract (as printed by TLC with the case) allows."""
    for r in rows:
        if r["type"] == "baseline":
            # the genuine message must conform to the TLA+ grammar table and be accepted by the real code:
            # otherwise the binding itself is broken, which is not a verdict about the property
            if not r["conforms"]:
                stats["tool_errors"].append(f"genuine {r['tpl']} does not conform to its grammar table / cannot be set up for {r['entry']} {r.get('phase', '')}: {r['detail']}")
                continue
            if r["res"] != "value":
                stats["tool_errors"].append(f"genuine {r['tpl']} is not accepted by {r['entry']} {r.get('phase', '')}: {r['res']} {r['detail']}")
                continue
            if r.get("effect") is False and (r["entry"] in ALWAYS_EFFECT or r["tpl"] in IN_PHASE.get((r["entry"], r.get("phase")), [])):
                stats["tool_errors"].append(f"genuine {r['tpl']} has no effect on {r['entry']} in phase {r.get('phase')}: {r.get('note')}")
                continue
            stats["tpl_seen"].add((r["entry"], r["tpl"], r.get("phase")))
            stats["templates"] = len(stats["tpl_seen"])
    seen = set()
    for r in rows:
        if r["type"] != "obs":
            continue
        seen.add(r["case"])
        case = case_rows[r["case"]]
        res = r["res"]
        stats["by_res"][res] = stats["by_res"].get(res, 0) + 1
        if res in SKIP_RES:
            continue
        if res in ("unsupported", "no_template", "setup_failed"):
            # the machinery failed for this case; it must not hide verdicts on the cases that were executed
            stats["tool_errors"].append(f"harness cannot execute case {r['case']}: {res} {r['entry']} {r['tpl']} {r.get('detail', '')[:300]}")
            continue
        stats["executed"] += 1
        stats["distinct"].add((r["entry"], r.get("phase"), r["tpl"], r["field"], r["mut"]))
        post = r.get("post")
        if r.get("processed") is False:
            # beyond the listed property: the endpoint gave no sign of life after the input (e.g. it is waiting for
            # the rest of a truncated TCP frame); the property only asks that it does not crash, hang or bloat
            stats["silent"] = stats.get("silent", 0) + 1
        if res in case["allowed"]["res"] and (post is None or post in case["allowed"]["post"]):
            if len(ck.cov["samples"]) < 6 and r["mut"] in ("len_max", "trunc_inside_fix", "dup_fill"):
                ck.cov["samples"].append({k: r.get(k) for k in ("entry", "phase", "tpl", "field", "mut", "res", "detail", "in_len", "alloc", "cpu_us")})
            continue
        rec = {"case": case, "observed": {k: v for k, v in r.items() if k not in ("type",)}}
        ck.divergence(sig_of(r), rec)
    missing = set(range(len(case_rows))) - seen
    if missing:
        stats["tool_errors"].append(f"{len(missing)} cases were not executed (first: {sorted(missing)[:3]})")


def run(tier):
    ck = vlib.Check(PID, tier, level="exploration")
    vlib.build_harness(["inputs"])
    stats = {"templates": 0, "executed": 0, "by_res": {}, "distinct": set(), "tpl_seen": set(), "tool_errors": []}
    total_cases = 0
    bfs_done = 0
    finished = True
    def generate(p):
        label, entries, maxfeeds, nshards, sim = p
        cfg = os.path.join(vlib.SPEC, f"MC_Inputs_{tier}_{label}.gen.cfg")
        write_cfg(cfg, entries, ALL_MUTS, maxfeeds, sim=sim is not None)
        grammar = os.path.join(ck.dir, f"grammar_{label}.ndjson")
        bounds = os.path.join(ck.dir, f"bounds_{label}.ndjson")
        cases = os.path.join(ck.dir, f"cases_{label}.ndjson")
        try:
            res = vlib.tlc("MC_Inputs", os.path.basename(cfg), tags=("GRAMMAR", "CASE", "BOUNDS"),
                           sinks={"GRAMMAR": grammar, "CASE": cases, "BOUNDS": bounds}, timeout=1800,
                           tag=f"MC_Inputs_{tier}_{label}", simulate=sim[0] if sim else None, depth=sim[1] if sim else None)
        finally:
            os.remove(cfg)
        return res

    # the TLC passes (single-worker emission runs) are independent: a few at a time, then the replays one after another
    with concurrent.futures.ThreadPoolExecutor(max_workers=4) as ex:
        results = list(ex.map(generate, TIERS[tier]))
    for (label, entries, maxfeeds, nshards, sim), res in zip(TIERS[tier], results):
        grammar = os.path.join(ck.dir, f"grammar_{label}.ndjson")
        bounds = os.path.join(ck.dir, f"bounds_{label}.ndjson")
        cases = os.path.join(ck.dir, f"cases_{label}.ndjson")
        vlib.tlc_ok(res, label)
        ck.add_tlc(res, label)
        if sim is None:
            finished = finished and res["finished"]
        with open(grammar, "a") as g, open(bounds) as b:
            g.write(b.read())
        if sim is not None:
            # keep each distinct case once, and only those whose history already contains an input
            # (single inputs are covered completely by the BFS passes)
            seen, keep = set(), []
            with open(cases) as f:
                for line in f:
                    if line in seen or '"op":"feed"' not in line:
                        continue
                    seen.add(line)
                    keep.append(line)
            if tier == "quick":
                keep = keep[::2]    # the sequence pass is a sample either way; every second case keeps quick inside its budget
            with open(cases, "w") as f:
                f.writelines(keep)
        case_rows = vlib.read_ndjson(cases)
        if sim is None:
            total_cases += len(case_rows)
        else:
            stats["sequences"] = stats.get("sequences", 0) + len(case_rows)
        before = stats["executed"] + stats["by_res"].get("inapplicable", 0)
        t_pass = time.time()
        rows = execute(ck, label, grammar, cases, nshards, VARIANTS[tier])
        vlib.log(f"  pass {label}: {len(case_rows)} cases replayed in {time.time() - t_pass:.1f} s (TLC {res['wall_s']} s)")
        classify(ck, rows, case_rows, stats)
        if sim is None:
            bfs_done = stats["executed"] + stats["by_res"].get("inapplicable", 0) + stats["by_res"].get("unreachable", 0)
    ck.cov["traces_validated_against_impl"] = stats["executed"]
    ck.cov["evaluations"] = sum(r.get("executions", 0) for r in [])
    ck.cov["evaluations"] = stats["executed"] * VARIANTS[tier]
    ck.cov["distinct_nontrivial"] = len(stats["distinct"])
    ck.cov["exhaustive"] = finished and bfs_done == total_cases
    ck.cov["sequence_cases"] = stats.get("sequences", 0)
    ck.cov["rule"] = ("every (entry point, connection phase, template, field, mutation) class of the Inputs model is concretised "
                      "from a genuine message located through the TLA+ grammar table and executed on the real code; a class "
                      "counts as executed when it has a concrete instance on the genuine message (others are reported as "
                      "inapplicable); outcome must be value|error with CPU <= 50 ms and peak allocation <= 64 x input + 1 MiB, "
                      "and operations on accepted packets must not panic")
    ck.cov["outcomes"] = stats["by_res"]
    ck.cov["templates_conforming"] = stats["templates"]
    ck.cov["silent_after_input"] = stats.get("silent", 0)
    ck.assumptions += [
        "exploration level: model-generated shape classes of each wire grammar, not all byte strings up to 64 KiB",
        "the grammar tables in spec/InputsGrammar.tla are the trusted description of each format; every genuine message "
        "is checked to conform to its table before it is mutated",
        "CPU bound measured as thread CPU time (confirmed by two re-runs before reporting), allocation by a counting "
        "global allocator in the harness process",
        f"{VARIANTS[tier]} concretisations per class (as built, and with VERIF_SEED noise in the unconstrained bytes)",
    ]
    settle(ck, stats)


def settle(ck, stats):
    """Violations on executed cases take precedence; a failure of the machinery (an entry point that could not be set
    up, a genuine message that no longer conforms ...) is a tool error only if nothing was found, and is listed anyway."""
    errs = stats["tool_errors"]
    seen = []
    for e in errs:
        k = e[:90]
        if k not in [s[:90] for s in seen]:
            seen.append(e)
    ck.notes += [f"tool error ({len(errs)} in total): {e}" for e in seen[:10]]
    ck.cov["exhaustive"] = ck.cov.get("exhaustive", False) and not errs
    if errs and not ck.violations:
        for e in seen[:5]:
            vlib.log("  " + e)
        raise vlib.ToolError(f"{len(errs)} cases / templates could not be executed and no violation was found elsewhere: {seen[0]}")
    for e in seen[:5]:
        print(f"TOOL-NOTE property={PID} {e[:300]}")
    ck.finish()


def replay(path):
    """Re-run the class of one recorded violation."""
    ck = vlib.Check(PID, "quick", level="exploration")
    vlib.build_harness(["inputs"])
    with open(path) as f:
        rec = json.load(f)
    case = rec["record"]["case"]
    cfg = os.path.join(vlib.SPEC, "MC_Inputs_replay.gen.cfg")
    write_cfg(cfg, [case["entry"]], [case["mut"]], 1)
    grammar = os.path.join(ck.dir, "grammar_replay.ndjson")
    bounds = os.path.join(ck.dir, "bounds_replay.ndjson")
    allc = os.path.join(ck.dir, "cases_replay_all.ndjson")
    res = vlib.tlc("MC_Inputs", os.path.basename(cfg), tags=("GRAMMAR", "CASE", "BOUNDS"),
                   sinks={"GRAMMAR": grammar, "CASE": allc, "BOUNDS": bounds}, timeout=600, tag="MC_Inputs_replay")
    os.remove(cfg)
    vlib.tlc_ok(res, "replay")
    ck.add_tlc(res, "replay")
    with open(grammar, "a") as g, open(bounds) as b:
        g.write(b.read())
    keep = [c for c in vlib.read_ndjson(allc)
            if all(c[k] == case[k] for k in ("entry", "phase", "tpl", "field", "mut"))]
    cases = os.path.join(ck.dir, "cases_replay.ndjson")
    vlib.write_ndjson(cases, keep)
    stats = {"templates": 0, "executed": 0, "by_res": {}, "distinct": set(), "tpl_seen": set(), "tool_errors": []}
    rows = execute(ck, "replay", grammar, cases, 1, VARIANTS["thorough"])
    classify(ck, rows, keep, stats)
    ck.cov.update(traces_validated_against_impl=stats["executed"], evaluations=stats["executed"], samples=keep[:1],
                  distinct_nontrivial=len(stats["distinct"]))
    settle(ck, stats)


def selftest():
    """Negative control on the model: with each deviation of the pinned tree switched on, TLC must report NoCrash."""
    ok = True
    for dev, entries in [("HelloEndsAfterRandom", ["dtls_clienthello", "dtls_client"]), ("SetExtensionSlicesPast", ["rtp"]),
                         ("EmptyTurnData", ["turn_udp"]), ("TurnTcpFrameLength", ["turn_tcp"]), ("MidPlusOneOverflows", ["pc_sdp"]), ("PostHvrSeqOverflows", ["dtls_client"]),
                         ("StapAAmplifies", ["rtp_transport"]), ("MediaSectionsUnbounded", ["pc_sdp"])]:
        cfg = os.path.join(vlib.SPEC, "MC_Inputs_selftest.gen.cfg")
        write_cfg(cfg, entries, ALL_MUTS, 1, emit=False, deviations=[dev])
        res = vlib.tlc("MC_Inputs", os.path.basename(cfg), timeout=600, workers=2, tag="MC_Inputs_selftest")
        os.remove(cfg)
        hit = any("NoCrash" in e for e in res["errors"]) or any("NoCrash" in l for l in res["raw_tail"])
        print(f"selftest: deviation {dev} on => model violates NoCrash: {hit}")
        ok = ok and hit
    raise SystemExit(0 if ok else 2)
