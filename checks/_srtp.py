"""Shared driver for the two SRTP checks (C04, C05): Srtp.tla configurations, TLC runs (design check +
edge generator), sharded replay on real SrtpSessions, classification of divergences."""
import concurrent.futures as cf
import json
import os
import vlib

ALL16 = "{" + ", ".join(str(i) for i in range(16)) + "}"
BOUNDARY = "{0, 1, 32767, 32768, 32769, 65534, 65535}"
BOUNDARY11 = "{0, 1, 2, 32766, 32767, 32768, 32769, 32770, 65533, 65534, 65535}"
RTP_KINDS = '{"flip_hdr", "flip_csrc_ext", "flip_payload", "flip_tag", "truncate", "extend", "reseq", "wrongkey", "newssrc"}'
# a forgery is presented k times in a row (failure counters / rate-limited paths): each must be rejected, nothing may move
REPS = "{1, 4, 5, 101}"
RTCP_KINDS = '{"flip_hdr", "flip_payload", "flip_tag", "flip_ebit", "truncate", "extend", "reindex", "wrongkey", "newssrc"}'

BASE = dict(Ssrcs="{1}", ForgedSsrcs="{}", SeqBits=4, SeqAlpha=ALL16, MaxRoc=2, StartIdx="{15, 24}",
            StartFresh="TRUE", StepsFwd="{}", StepsBack="{}", MaxLen=4, MaxSent=3, Watermark=2,
            WithRtcp="FALSE", WithTick="FALSE", RtpForgeKinds="{}", RtcpForgeKinds="{}", ForgeOffsets="{}",
            ForgeReps="{1}", RtcpTop=1000, Embed='"low"', RtcpBase=0)


def conf(**kw):
    d = dict(BASE)
    d.update(kw)
    return d


# ---- configurations ------------------------------------------------------------------------------------
# C04: genuine traffic only (+ SRTCP); C05: forgeries interleaved with genuine traffic, context table.
CONFIGS = {
    ("C04", "quick"): [
        # every sender step inside the window, every delivery order, ROC 0..2, scaled sequence space
        ("roc/bits4", conf(StartIdx="{15, 24, 40}", MaxLen=5, MaxSent=4)),
        # exact thresholds: real 16-bit sequence numbers from the boundary alphabet
        ("boundary/bits16", conf(SeqBits=16, SeqAlpha=BOUNDARY11, MaxRoc=3,
                                 StartIdx="{1, 32767, 32768, 65535, 98304, 131071, 196607, 229376}", MaxLen=4, MaxSent=4)),
        # 11 boundary values, 3 wraps, rollover counters at the very top of the 32-bit space (model ROC 0..3 <-> real
        # 2^32-4 .. 2^32-1, positions installed through the H4 state-setting hook; no reference there)
        ("boundary/highroc", conf(SeqBits=16, SeqAlpha=BOUNDARY11, MaxRoc=3, StartIdx="{65535, 98304, 196607, 262143}",
                                  MaxLen=4, MaxSent=4, Embed='"highroc"')),
        # SRTCP index at the top of its 31-bit space: index 2^31-1 is the last one, then the key is exhausted
        ("rtcp/top", conf(Ssrcs="{1, 2}", SeqAlpha="{15, 0}", StartIdx="{15}", StartFresh="FALSE", StepsFwd="{1}",
                          StepsBack="{}", WithRtcp="TRUE", RtcpTop=2, MaxLen=6, MaxSent=8, Embed='"rtcptop"')),
        # SRTCP index positions where index bytes move inside the AES-CM IV / GCM nonce: across 2^16 (both senders really
        # stand there: the reference sender is advanced by 65 533 packets) and across 2^24 (rustrtc sender placed by the
        # H4 override; the reference's stateless receiver is the oracle)
        ("rtcp/pos16", conf(SeqAlpha="{15, 0}", StartIdx="{15}", StartFresh="FALSE", StepsFwd="{1}", StepsBack="{}",
                            WithRtcp="TRUE", MaxLen=5, MaxSent=6, Embed='"rtcppos"', RtcpBase=65533)),
        ("rtcp/pos24", conf(SeqAlpha="{15, 0}", StartIdx="{15}", StartFresh="FALSE", StepsFwd="{1}", StepsBack="{}",
                            WithRtcp="TRUE", MaxLen=5, MaxSent=6, Embed='"rtcppos"', RtcpBase=16777213)),
        # several SSRCs interleaved, SRTCP
        ("multi/rtcp", conf(Ssrcs="{1, 2, 3}", SeqAlpha="{0, 1, 14, 15}", StartIdx="{15}", StepsFwd="{1, 2}",
                            StepsBack="{1}", WithRtcp="TRUE", MaxLen=4, MaxSent=4)),
        # more live streams than the context high-water mark + 60 s silences: the documented idle-context eviction
        # (the model relaxes the demand after an eviction; what a never-forgetting receiver would accept is EXT)
        ("idle/churn", conf(Ssrcs="{1, 2, 3}", SeqAlpha="{15, 0, 1, 2}", StartIdx="{16}", StartFresh="FALSE", StepsFwd="{1}",
                            StepsBack="{}", WithTick="TRUE", WithRtcp="TRUE", MaxLen=5, MaxSent=6)),
    ],
    ("C04", "thorough"): [
        ("roc/bits4", conf(StartIdx="{15, 24, 40}", MaxLen=6, MaxSent=5)),
        ("boundary/bits16", conf(SeqBits=16, SeqAlpha=BOUNDARY11, MaxRoc=3,
                                 StartIdx="{1, 32767, 32768, 65535, 98304, 131071, 196607, 229376}", MaxLen=5, MaxSent=5)),
        ("boundary/highroc", conf(SeqBits=16, SeqAlpha=BOUNDARY11, MaxRoc=3, StartIdx="{65535, 98304, 196607, 262143}",
                                  MaxLen=5, MaxSent=5, Embed='"highroc"')),
        ("rtcp/top", conf(Ssrcs="{1, 2}", SeqAlpha="{15, 0}", StartIdx="{15}", StartFresh="FALSE", StepsFwd="{1}",
                          StepsBack="{}", WithRtcp="TRUE", RtcpTop=2, MaxLen=7, MaxSent=9, Embed='"rtcptop"')),
        ("rtcp/pos16", conf(SeqAlpha="{15, 0}", StartIdx="{15}", StartFresh="FALSE", StepsFwd="{1}", StepsBack="{}",
                            WithRtcp="TRUE", MaxLen=6, MaxSent=7, Embed='"rtcppos"', RtcpBase=65533)),
        ("rtcp/pos24", conf(SeqAlpha="{15, 0}", StartIdx="{15}", StartFresh="FALSE", StepsFwd="{1}", StepsBack="{}",
                            WithRtcp="TRUE", MaxLen=6, MaxSent=7, Embed='"rtcppos"', RtcpBase=16777213)),
        ("multi/rtcp", conf(Ssrcs="{1, 2, 3}", SeqAlpha="{0, 1, 14, 15}", StartIdx="{15}", StepsFwd="{1, 2}",
                            StepsBack="{1}", WithRtcp="TRUE", MaxLen=5, MaxSent=5)),
        ("idle/churn", conf(Ssrcs="{1, 2, 3}", SeqAlpha="{15, 0, 1, 2}", StartIdx="{16}", StartFresh="FALSE", StepsFwd="{1}",
                            StepsBack="{}", WithTick="TRUE", WithRtcp="TRUE", MaxLen=7, MaxSent=6)),
    ],
    ("C05", "quick"): [
        ("forge/bits4", conf(ForgedSsrcs="{9}", StepsFwd="{1, 2, 7}", StepsBack="{1, 7}", WithRtcp="TRUE",
                             RtpForgeKinds=RTP_KINDS, RtcpForgeKinds=RTCP_KINDS, ForgeOffsets="{1, 7, 8, 9, 15}", ForgeReps="{1, 5}")),
        ("forge/bits16", conf(SeqBits=16, SeqAlpha=BOUNDARY, StartIdx="{32767, 65535, 98304}", ForgedSsrcs="{9}",
                              RtpForgeKinds='{"reseq", "wrongkey", "flip_hdr", "flip_tag"}',
                              RtcpForgeKinds='{"reindex", "wrongkey"}', WithRtcp="TRUE",
                              ForgeOffsets="{1, 32767, 32768, 32769, 65535}", ForgeReps=REPS, MaxLen=3, MaxSent=3)),
        # context table: forged new SSRCs, idle time, eviction above the high-water mark
        ("table", conf(Ssrcs="{1, 2}", ForgedSsrcs="{8, 9}", SeqAlpha="{15, 0, 1}", StartIdx="{16}", StepsFwd="{1}",
                       StepsBack="{}", WithTick="TRUE", RtpForgeKinds='{"newssrc", "wrongkey"}',
                       RtcpForgeKinds='{"newssrc"}', WithRtcp="TRUE", ForgeOffsets="{1}", MaxLen=5, MaxSent=3)),
        # more genuine streams than the high-water mark: legitimate eviction by authenticated traffic; forged
        # packets arriving while the table is over the mark and contexts are stale must still change nothing
        ("churn", conf(Ssrcs="{1, 2, 3}", ForgedSsrcs="{9}", SeqAlpha="{15, 0}", StartIdx="{16}", StepsFwd="{1}",
                       StepsBack="{}", WithTick="TRUE", RtpForgeKinds='{"newssrc", "wrongkey"}', RtcpForgeKinds="{}",
                       ForgeOffsets="{1}", MaxLen=5, MaxSent=4)),
    ],
    ("C05", "thorough"): [
        ("forge/bits4", conf(ForgedSsrcs="{9}", StepsFwd="{1, 2, 7}", StepsBack="{1, 7}", WithRtcp="TRUE",
                             RtpForgeKinds=RTP_KINDS, RtcpForgeKinds=RTCP_KINDS, ForgeOffsets="{1, 7, 8, 9, 15}", ForgeReps=REPS,
                             MaxLen=5, MaxSent=4)),
        ("forge/bits16", conf(SeqBits=16, SeqAlpha=BOUNDARY, StartIdx="{32767, 65535, 98304}", ForgedSsrcs="{9}",
                              RtpForgeKinds='{"reseq", "wrongkey", "flip_hdr", "flip_tag"}',
                              RtcpForgeKinds='{"reindex", "wrongkey"}', WithRtcp="TRUE",
                              ForgeOffsets="{1, 32767, 32768, 32769, 65535}", ForgeReps=REPS, MaxLen=4, MaxSent=4)),
        ("table", conf(Ssrcs="{1, 2}", ForgedSsrcs="{8, 9}", SeqAlpha="{15, 0, 1}", StartIdx="{16}", StepsFwd="{1}",
                       StepsBack="{}", WithTick="TRUE", RtpForgeKinds='{"newssrc", "wrongkey"}',
                       RtcpForgeKinds='{"newssrc"}', WithRtcp="TRUE", ForgeOffsets="{1}", ForgeReps="{1, 5}", MaxLen=6, MaxSent=3)),
        # more genuine streams than the high-water mark: legitimate eviction by authenticated traffic; forged
        # packets arriving while the table is over the mark and contexts are stale must still change nothing
        ("churn", conf(Ssrcs="{1, 2, 3}", ForgedSsrcs="{9}", SeqAlpha="{15, 0}", StartIdx="{16}", StepsFwd="{1}",
                       StepsBack="{}", WithTick="TRUE", RtpForgeKinds='{"newssrc", "wrongkey"}', RtcpForgeKinds="{}",
                       ForgeOffsets="{1}", MaxLen=6, MaxSent=4)),
    ],
}

# G-sim: TLC -simulate with the same EmitEdge: every out-edge of every state visited on random deep paths, each with
# its real, unmerged history (forged packets and ticks in the middle of genuine traffic - in the BFS transition cover a
# forged step is a self-loop of the model state and therefore never part of a history prefix).
# entries: (label, constants, traces quick, traces thorough)
SIM = {
    "C04": [("sim/2ssrc", conf(Ssrcs="{1, 2}", MaxRoc=3, StartIdx="{15, 30}", StepsFwd="{1, 2, 6, 7}", StepsBack="{1, 2, 7}",
                               WithRtcp="TRUE", MaxLen=18, MaxSent=9), 40, 200)],
    "C05": [("sim/forge", conf(Ssrcs="{1, 2}", ForgedSsrcs="{9}", MaxRoc=3, StartIdx="{15, 30}", StepsFwd="{1, 7}",
                               StepsBack="{1}", WithRtcp="TRUE", WithTick="TRUE",
                               RtpForgeKinds='{"flip_hdr", "flip_tag", "reseq", "wrongkey", "newssrc"}',
                               RtcpForgeKinds='{"reindex", "flip_tag", "newssrc"}', ForgeOffsets="{1, 9}", ForgeReps="{1, 4}",
                               MaxLen=16, MaxSent=8), 16, 200)],
}

# configurations whose edges are replayed a second time through RtpTransport's keyed receive path (listeners, RTCP
# listener, ingress observer as sinks): a forged packet yields no media, a genuine one reaches its own listener unchanged
TRANSPORT = {"C04": ("multi/rtcp", "boundary/bits16", "sim/2ssrc"),
             "C05": ("forge/bits4", "forge/bits16", "sim/forge")}

INVARIANTS = "TypeOK SenderAgreement IndexAgreement NoPhantomIndex NoLossByEviction SrtcpIndexFresh Rejected RtcpAccepted"
# configurations that describe the pinned code's open deviation generate with it switched on (and without the invariant
# it breaks): their expectations then match the code, and the replayer reports the property-level consequence
_EVICT_BREAKS = ("SenderAgreement", "IndexAgreement", "NoPhantomIndex", "NoLossByEviction", "SrtcpIndexFresh")
OPEN_DEV = {"idle/churn": ("EvictLosesState", _EVICT_BREAKS), "churn": ("EvictLosesState", _EVICT_BREAKS)}
PROPERTIES = "ForgeUnchanged AcceptanceStable RejectIsNoop IndexMonotone"


def write_cfg(path, c, emit, deviations="{}", props='{"C04", "C05", "EXT"}', emit_op="EmitEdge", drop_inv=None):
    lines = ["SPECIFICATION Spec", "CONSTANTS"]
    for k, v in c.items():
        lines.append(f"  {k} = {v}")
    inv = " ".join(i for i in INVARIANTS.split() if i not in (drop_inv or ()))
    lines += [f"  Deviations = {deviations}", f"  Props = {props}", "VIEW view", f"INVARIANTS {inv}",
              f"PROPERTIES {PROPERTIES}", f"ACTION_CONSTRAINT {emit_op if emit else 'NoEmit'}", "CHECK_DEADLOCK FALSE", ""]
    with open(path, "w") as f:
        f.write("\n".join(lines))


def gen_edges(ck, pid, tier, label, consts, emit_op="EmitEdge", **tlc_kw):
    """TLC: design check (invariants/action properties with Deviations = {}) + one EDGE line per (state, action)
    (or, with EmitFinal under -simulate, one per behaviour)."""
    safe = label.replace("/", "_")
    cfg = os.path.join(vlib.SPEC, f"MC_Srtp_{pid}_{tier}_{safe}.gen.cfg")
    dev, drop = OPEN_DEV.get(label, (None, None))
    write_cfg(cfg, consts, emit=True, emit_op=emit_op, deviations='{"%s"}' % dev if dev else "{}", drop_inv=drop)
    edges = os.path.join(ck.dir, f"edges_{tier}_{safe}.ndjson")
    try:
        res = vlib.tlc("MC_Srtp", os.path.basename(cfg), tags=("EDGE",), sinks={"EDGE": edges},
                       timeout=tlc_kw.pop("timeout", 900), tag=f"srtp_{pid}_{tier}_{safe}", heap="4g", **tlc_kw)
    finally:
        try:
            os.remove(cfg)
        except OSError:
            pass
    vlib.tlc_ok(res, label)
    return res, edges


def replay_edges(ck, edges, label, shards=8, bits="few", extra=()):
    """Run the harness over the edge file in `shards` processes; returns (rows, summary)."""
    safe = label.replace("/", "_")

    def one(i):
        out = os.path.join(ck.dir, f"replay_{safe}.{i}.ndjson")
        p = vlib.run_bin("srtp", [edges, out, "--shard", f"{i}/{shards}", "--bits", bits] + list(extra), timeout=3000)
        if p.returncode != 0:
            raise vlib.ToolError(f"srtp replayer failed rc={p.returncode}: {p.stderr[-2000:]}")
        rows = vlib.read_ndjson(out)
        _rm(out)
        return rows

    rows = []
    with cf.ThreadPoolExecutor(max_workers=shards) as ex:
        for r in ex.map(one, range(shards)):
            rows += r
    summ = {"edges": 0, "evaluations": 0, "ref_checked": 0, "ref_skipped": 0, "forged_variants": 0, "steps": 0,
            "divergences": 0}
    for r in rows:
        if r.get("type") == "summary":
            for k in summ:
                summ[k] += r.get(k, 0)
        elif r.get("type") == "harness_error":
            raise vlib.ToolError(f"harness error on edge {r.get('edge')}: {r.get('error')}")
    return rows, summ


def sig_of(r):
    return {"sub": "srtp", "rule": r.get("rule"), "proto": r.get("proto"), "profile": r.get("profile"),
            "pclass": r.get("pclass"), "world": r.get("world"), "field": r.get("detail", {}).get("field")}


def classify(ck, pid, rows, label):
    """Divergences of this property -> violations / known findings; EXT -> drift; the other property's are noted."""
    other = 0
    for r in rows:
        if r.get("type") != "divergence":
            continue
        r["config"] = label
        if r["prop"] == pid:
            ck.divergence(sig_of(r), r)
        elif r["prop"] == "EXT":
            if len(ck.drift) < 50:
                ck.drift.append({"rule": r["rule"], "profile": r["profile"], "proto": r["proto"], "kind": r["kind"],
                                 "detail": r["detail"], "config": label})
            ck.cov.setdefault("drift_by_rule", {})
            ck.cov["drift_by_rule"][r["rule"]] = ck.cov["drift_by_rule"].get(r["rule"], 0) + 1
        else:
            other += 1
    if other:
        ck.notes.append(f"{label}: {other} divergences belong to the sibling SRTP property (decided by its own check)")


def nontrivial_edges(edges_path, pid, samples, want=6):
    """distinct edges whose action is rule-relevant for the property, counted by hashing."""
    seen = set()
    n = 0
    with open(edges_path) as f:
        for line in f:
            n += 1
            e = json.loads(line)
            op = e["act"][0]
            if pid == "C04":
                rel = op == "deliver" or (op == "protect")
            else:
                rel = op == "forge" or (op == "deliver" and any(s[0] == "forge" for s in e["pre"])) or op == "tick"
            if rel:
                seen.add(hash(line))
                if len(samples) < want and (n % 997 == 1 or len(e["pre"]) >= 3):
                    samples.append({"cfg": e["cfg"], "pre": e["pre"], "act": e["act"], "exp": e["exp"]})
    return n, len(seen)


def _rm(path):
    if os.environ.get("VERIF_KEEP"):
        return
    try:
        os.remove(path)
    except OSError:
        pass


def run(pid, tier, rule_text, assumptions, bits="few"):
    ck = vlib.Check(pid, tier)
    for f in os.listdir(ck.dir):          # replay files of an earlier run are stale
        if f.startswith("violation_"):
            _rm(os.path.join(ck.dir, f))
    vlib.build_harness(["srtp"])
    cfgs = [(label, consts, {}) for label, consts in CONFIGS[(pid, tier)]]
    for label, consts, nq, nt in SIM[pid]:
        n = nt if tier == "thorough" else nq
        cfgs.append((label, consts, dict(simulate=n, depth=consts["MaxLen"] + 1)))
    # TLC emission runs are single-worker; run the configurations side by side
    with cf.ThreadPoolExecutor(max_workers=len(cfgs)) as ex:
        futs = [ex.submit(gen_edges, ck, pid, tier, label, consts,
                          timeout=3000 if tier == "thorough" else 900, **kw) for label, consts, kw in cfgs]
        gen = [f.result() for f in futs]
    total_edges = total_nt = 0
    exhaustive = True
    tot = {}
    for (label, consts, kw), (res, edges) in zip(cfgs, gen):
        sim = "simulate" in kw
        ck.add_tlc(res, label)
        # forged steps inside histories are concretised sparsely; the bit-exhaustive mode is for the final action of G-edge
        rows, summ = replay_edges(ck, edges, label, bits="few" if sim else bits)
        classify(ck, pid, rows, label)
        if label in TRANSPORT[pid]:
            trows, tsumm = replay_edges(ck, edges, label + "_transport", bits="few", extra=["--transport"])
            classify(ck, pid, trows, label + "@transport")
            tr = ck.cov.setdefault("transport", {"edges": 0, "genuine_delivered_unchanged": 0, "forged_silent": 0})
            tr["edges"] += tsumm["edges"]
            tr["genuine_delivered_unchanged"] += tsumm["ref_checked"]
            tr["forged_silent"] += tsumm["ref_skipped"]
            tot["evaluations"] = tot.get("evaluations", 0) + tsumm["evaluations"]
        n, nt = nontrivial_edges(edges, pid, ck.cov["samples"], want=8 if sim else 6)
        _rm(edges)
        total_edges += summ["edges"]
        total_nt += nt
        if not sim:
            exhaustive = exhaustive and res["finished"] and summ["edges"] == res["counts"]["EDGE"] == n
        elif summ["edges"] != res["counts"]["EDGE"]:
            raise vlib.ToolError(f"{label}: replayed {summ['edges']} of {res['counts']['EDGE']} simulated edges")
        for k, v in summ.items():
            tot[k] = tot.get(k, 0) + v
    # regression: the TLC edges that witnessed the (fixed) findings of this property are replayed verbatim, all profiles
    wdir = os.path.join(vlib.SPEC, "witness")
    for f in sorted(os.listdir(wdir)) if os.path.isdir(wdir) else []:
        if not f.startswith(f"KF-{pid}-"):
            continue
        with open(os.path.join(wdir, f)) as fh:
            w = json.load(fh)
        ep = os.path.join(ck.dir, "witness_one.ndjson")
        vlib.write_ndjson(ep, [w["case"]])
        rows, summ = replay_edges(ck, ep, "witness", shards=1, bits=bits, extra=["--lineno", str(w.get("edge", 0))])
        classify(ck, pid, rows, "witness/" + w["id"])
        _rm(ep)
        total_edges += summ["edges"]
        for k, v in summ.items():
            tot[k] = tot.get(k, 0) + v
    ck.cov["traces_validated_against_impl"] = total_edges
    ck.cov["evaluations"] = tot.get("evaluations", 0)
    ck.cov["distinct_nontrivial"] = total_nt
    ck.cov["exhaustive"] = exhaustive
    ck.cov["replay"] = tot
    ck.cov["rule"] = rule_text
    ck.assumptions += assumptions
    ck.finish()


def replay_one(pid, path):
    ck = vlib.Check(pid, "quick")
    vlib.build_harness(["srtp"])
    with open(path) as f:
        rec = json.load(f)
    r = rec["record"]
    case = r.get("case")
    if case is None:
        raise vlib.ToolError("violation record carries no case")
    ep = os.path.join(ck.dir, "replay_one.ndjson")
    vlib.write_ndjson(ep, [case])
    rows, summ = replay_edges(ck, ep, "one", shards=1, extra=["--lineno", str(r.get("edge", 0)), "--profiles", r["profile"]])
    classify(ck, pid, rows, "replay")
    ck.cov.update(states=1, transitions=1, traces_validated_against_impl=summ["edges"], samples=[case],
                  evaluations=summ["evaluations"])
    ck.finish()


# ---- negative controls kept runnable: ./check C04 --selftest / ./check C05 --selftest ---------------------
SELF_DEV = {
    # deviation -> (configuration, a property it must break, a property it must NOT break or None)
    "EstimateSlack": (conf(StartIdx="{15, 24}", MaxLen=3, MaxSent=3), ("SenderAgreement", "IndexAgreement")),
    "RtpUpdateBeforeAuth": (conf(StepsFwd="{1, 7}", StepsBack="{1}", RtpForgeKinds='{"wrongkey", "reseq"}',
                                 ForgeOffsets="{1, 7, 9}", MaxLen=3), ("ForgeUnchanged", "AcceptanceStable")),
    "RtcpIndexBeforeAuth": (conf(StepsFwd="{1}", WithRtcp="TRUE", RtcpForgeKinds='{"reindex", "wrongkey"}', MaxLen=3),
                            ("ForgeUnchanged",)),
    "TableBeforeAuth\", \"EvictLosesState": (CONFIGS[("C05", "quick")][2][1], ("ForgeUnchanged", "AcceptanceStable")),
    "RtcpIndexOverflow": (conf(Ssrcs="{1}", SeqAlpha="{15, 0}", StartIdx="{15}", StartFresh="FALSE", StepsFwd="{1}", WithRtcp="TRUE",
                               RtcpTop=2, MaxLen=5, MaxSent=6), ("IndexAgreement",)),
    "EvictLosesState": ([c for l, c in CONFIGS[("C04", "quick")] if l == "idle/churn"][0], ("NoLossByEviction", "SenderAgreement", "IndexAgreement")),
}


def selftest(pid):
    ok = True
    ck = vlib.Check(pid + "-selftest", "quick")
    # (i) each deviation-on model violates the rule it is about
    for dev, (consts, broken) in SELF_DEV.items():
        cfg = os.path.join(vlib.SPEC, "MC_Srtp_selftest_%s.gen.cfg" % dev.replace('", "', "_"))
        # only the rules of the property the deviation is about are switched on (Props), so the reported
        # violation is one of that listed property, not of an EXT rule
        props = '{"C04"}' if dev in ("EstimateSlack", "EvictLosesState", "RtcpIndexOverflow") else '{"C05"}'
        write_cfg(cfg, consts, emit=False, deviations='{"%s"}' % dev, props=props)
        res = vlib.tlc("MC_Srtp", os.path.basename(cfg), timeout=900, workers=4, tag="srtp_self_" + dev.replace('", "', "_"), heap="3g")
        os.remove(cfg)
        hit = [b for b in broken if any(b in e for e in res["errors"])]
        print(f"selftest: Deviations={{{dev}}} violates {hit or 'NOTHING'} (expected one of {list(broken)})")
        ok = ok and bool(hit)
    # (ii) with RtcpIndexBeforeAuth the acceptance set is still stable (state moved, acceptance did not):
    #      ForgeUnchanged and AcceptanceStable are distinct claims
    consts = SELF_DEV["RtcpIndexBeforeAuth"][0]
    cfg = os.path.join(vlib.SPEC, "MC_Srtp_selftest_acc.gen.cfg")
    write_cfg(cfg, consts, emit=False, deviations='{"RtcpIndexBeforeAuth"}')
    with open(cfg) as f:
        txt = f.read().replace(f"PROPERTIES {PROPERTIES}", "PROPERTIES AcceptanceStable")
    with open(cfg, "w") as f:
        f.write(txt)
    res = vlib.tlc("MC_Srtp", os.path.basename(cfg), timeout=900, workers=4, tag="srtp_self_acc", heap="3g")
    os.remove(cfg)
    print("selftest: RtcpIndexBeforeAuth keeps AcceptanceStable:", not res["errors"])
    ok = ok and not res["errors"]
    # (iii) a corrupted expectation is reported by the replayer: claim 'must accept' for a delivery the model rejects
    vlib.build_harness(["srtp"])
    res, edges = gen_edges(ck, pid, "selftest", "tiny", conf(StartIdx="{15}", MaxLen=3, MaxSent=3))
    bad = None
    with open(edges) as f:
        for line in f:
            e = json.loads(line)
            if e["act"][0] == "deliver" and e["act"][6] == 0 and e["act"][8] == 0:
                e["act"][7] = 1
                bad = e
                break
    if bad is None:
        raise vlib.ToolError("no rejected delivery in the tiny model")
    ep = os.path.join(ck.dir, "corrupt.ndjson")
    vlib.write_ndjson(ep, [bad])
    rows, summ = replay_edges(ck, ep, "corrupt", shards=1)
    got = [r for r in rows if r.get("type") == "divergence" and r["prop"] == "C04" and r["rule"] == "IndexAgreement"]
    print("selftest: corrupted must-accept flag is reported by the replayer:", len(got) > 0)
    ok = ok and len(got) > 0
    raise SystemExit(0 if ok else 2)
