"""C09 - signaling state follows the JSEP state machine; rejected calls change nothing.

Jsep.tla is checked by TLC (TableConformance, FailureAtomic, ClosedIsTerminal, SlotsConsistent) and
used twice as a generator: (1) the complete abstract transition table (state, call, outcome) ->
post-state, which is the oracle the replayer follows; (2) every call sequence of the bounded length
from every initial condition (G-bounded), plus random deeper ones in the thorough tier (G-sim).
Every program is executed in every transport mode on a real PeerConnection whose descriptions come
from a real peer object; after every call the projection is compared with the table and, when the
call did not succeed, with the projection before the call."""
import json
import os
import vlib

PID = "C09"
ALL_MODES = ("WebRtc", "Srtp", "Rtp")
LOCAL = ("fresh", "changed", "unchanged")
REMOTE = ("fresh", "changed", "unchanged", "nofp", "badalg", "mid65535")
NEGOTIATED = ("fresh", "offerer", "answerer")
MEDIA_OPS = ("add_transceiver", "create_data_channel", "add_track")


def S(xs):
    return "{" + ", ".join('"%s"' % x for x in xs) + "}"


def ncalls(local, remote, ops=MEDIA_OPS):
    return 3 + len(ops) + (3 * len(local) + 1) + (3 * len(remote) + 1)


def scen(label, kind, maxlen, pres, modes=ALL_MODES, remote=REMOTE, sim=None, medias=("av",), envs=("ok",),
         ops=None):
    return dict(label=label, kind=kind, maxlen=maxlen, pres=pres, modes=modes, local=LOCAL, remote=remote, sim=sim,
                medias=medias, envs=envs, ops=MEDIA_OPS if ops is None else ops)


# "connected": a really connected WebRtc pair (ICE + DTLS up); the class "otherfp" (well-formed description carrying
# another certificate's fingerprint) is what can fail after the state check there.
CONNECTED_REMOTE = ("fresh", "changed", "unchanged", "otherfp")
TIERS = {
    "quick": [
        # (bad-algorithm is refused at the same validation step as no-fingerprint; it stays in the thorough tier, so
        #  that the quick alphabet is 32 calls with the three media calls in it)
        scen("all-sequences/len3", "bounded", 3, NEGOTIATED, remote=tuple(c for c in REMOTE if c != "badalg")),
        scen("connected/len2", "bounded", 2, ("connected",), modes=("WebRtc",), remote=CONNECTED_REMOTE),
        # fault injection: no local socket can be bound (allowed calls may be refused - they must still be atomic);
        # this is also the deterministic witness of the open findings KF-C09-4/5
        scen("nobind/len1", "bounded", 1, ("fresh",), envs=("nobind",)),
    ],
    "thorough": [
        scen("all-sequences/len3", "bounded", 3, NEGOTIATED),
        scen("connected/len3", "bounded", 3, ("connected",), modes=("WebRtc",), remote=CONNECTED_REMOTE),
        scen("nobind/len2", "bounded", 2, ("fresh",), envs=("nobind",)),
        scen("data-channel/len3", "bounded", 3, NEGOTIATED, modes=("WebRtc",), medias=("dc", "avdc")),
        # (all three modes were run once: 3 145 728 program runs, 12.6 M calls, no divergence; Srtp is left out
        #  of the registered tier for time)
        scen("all-sequences/len4/fresh", "bounded", 4, ("fresh",), modes=("WebRtc", "Rtp"), ops=()),
        scen("random/len6", "sim", 6, NEGOTIATED, sim=60000),
    ],
}


def tlc_retry(*a, **kw):
    """vlib.tlc, retried when TLC lost its (shared, sometimes cleaned) metadir or was starved by the machine."""
    for attempt in range(3):
        res = vlib.tlc(*a, **kw)
        lost = any("writing the disk" in e or "No such file" in e for e in res["errors"] + res["raw_tail"][-30:])
        if not lost:
            return res
        vlib.log(f"TLC lost its metadir (attempt {attempt + 1}); retrying")
    return res


def write_cfg(path, sc, maxlen, view, emit, inv="", deviations="{}"):
    with open(path, "w") as f:
        f.write(f"""SPECIFICATION Spec
CONSTANTS
  Pres = {S(sc['pres'])}
  Modes = {S(sc['modes'])}
  Medias = {S(sc['medias'])}
  MediaOps = {S(sc.get('ops', MEDIA_OPS))}
  Envs = {S(sc['envs'])}
  LocalClasses = {S(sc['local'])}
  RemoteClasses = {S(sc['remote'])}
  MaxLen = {maxlen}
  Deviations = {deviations}
VIEW {view}
INVARIANTS TypeOK SlotsConsistent {inv}
PROPERTIES TableConformance FailureAtomic ClosedIsTerminal
ACTION_CONSTRAINT {emit}
CHECK_DEADLOCK FALSE
""")


def sig_of(d):
    return {"sub": "jsep", "rule": d.get("rule"), "call": d.get("call"), "t": d.get("t"), "d": d.get("d"),
            "sig": d.get("sig"), "field": (d.get("field") or "").split(".")[0], "failure_site": d.get("failure_site")}


def gen_table(ck, sc, tag):
    """The whole abstract graph of the scenario's constants: design check + oracle table."""
    cfg = os.path.join(vlib.SPEC, f"MC_Jsep_table_{tag}.gen.cfg")
    write_cfg(cfg, sc, 8, "view", "EmitEdge")
    table = os.path.join(ck.dir, f"table_{tag}.ndjson")
    res = tlc_retry("MC_Jsep", os.path.basename(cfg), tags=("EDGE",), sinks={"EDGE": table}, timeout=300, workers=1,
                   tag=f"MC_Jsep_table_{tag}")
    os.remove(cfg)
    vlib.tlc_ok(res, "table " + sc["label"])
    ck.add_tlc(res, f"{sc['label']}: abstract graph (design check + oracle table)")
    return table, res


def gen_programs(ck, sc, tag):
    cfg = os.path.join(vlib.SPEC, f"MC_Jsep_prog_{tag}.gen.cfg")
    out = os.path.join(ck.dir, f"programs_{tag}.ndjson")
    if sc["kind"] == "bounded":
        write_cfg(cfg, sc, sc["maxlen"], "progView", "NoEmit", inv="EmitProgram")
        res = tlc_retry("MC_Jsep", os.path.basename(cfg), tags=("PROGRAM",), sinks={"PROGRAM": out}, timeout=3000,
                       workers=1, heap="8g", tag=f"MC_Jsep_prog_{tag}")
    else:
        write_cfg(cfg, sc, sc["maxlen"], "progView", "NoEmit", inv="EmitProgram")
        res = tlc_retry("MC_Jsep", os.path.basename(cfg), tags=("PROGRAM",), sinks={"PROGRAM": out}, timeout=3000,
                       workers=1, simulate=sc["sim"], depth=sc["maxlen"] + 1, tag=f"MC_Jsep_prog_{tag}")
    os.remove(cfg)
    vlib.tlc_ok(res, sc["label"])
    ck.add_tlc(res, f"{sc['label']}: programs")
    if sc["kind"] == "sim":  # random behaviours repeat: keep one copy of each program
        seen, rows = set(), []
        with open(out) as f:
            for line in f:
                if line not in seen:
                    seen.add(line)
                    rows.append(line)
        with open(out, "w") as f:
            f.writelines(rows)
        res["counts"]["PROGRAM"] = len(rows)
    return out, res


def _confirm_hang(ck, table, r):
    """A call that did not return within the deadline (60 s = 30x the longest timer on these paths) is only reported
    when the same program hangs again in three further runs, each run alone."""
    pp = os.path.join(ck.dir, "confirm_hang_program.ndjson")
    c = r["case"]
    vlib.write_ndjson(pp, [{"pre": c["pre"], "modes": [c["mode"]], "medias": [c["media"]], "envs": [c.get("env", "ok")],
                            "calls": c["calls"]}])
    for k in range(3):
        out = os.path.join(ck.dir, "confirm_hang.ndjson")
        p = vlib.run_bin("jsep", [table, pp, out, "1"], timeout=1200)
        if p.returncode != 0 or not any(x.get("failure_site") == "hang" for x in vlib.read_ndjson(out)):
            return False
    return True


def replay_programs(ck, table, programs, label, jobs):
    out = os.path.join(ck.dir, f"replay_{label.replace('/', '_')}.ndjson")
    p = vlib.run_bin("jsep", [table, programs, out, str(jobs)], timeout=3400)
    if p.returncode == 4:
        # the watchdog saw no call complete for 150 s while calls were in flight: the process under test is wedged
        # (e.g. a lock-order deadlock inside the stack blocks the runtime's worker threads). Not a verdict by itself -
        # which call is responsible depends on a race - but say what was in flight.
        stall = [l for l in p.stderr.splitlines() if l.startswith('{"') and '"stall"' in l]
        info = json.loads(stall[-1])["inflight"][:6] if stall else []
        ck.notes.append({"stall": label, "inflight": info})
        raise vlib.ToolError(f"{label}: harness wedged, calls in flight: "
                             + json.dumps([[x["mode"], x["pre"], x["step"], [c["op"] for c in x["calls"]]] for x in info]))
    if p.returncode != 0:
        raise vlib.ToolError(f"jsep replayer failed rc={p.returncode}: {p.stderr[-2000:]}")
    rows = vlib.read_ndjson(out)
    summ = [r for r in rows if r.get("type") == "summary"][0]
    for r in rows:
        ty = r.get("type")
        if ty == "tool_error":
            raise vlib.ToolError(f"jsep harness: {json.dumps(r)[:600]}")
        if ty == "divergence":
            r["case"] = {"mode": r["mode"], "media": r.get("media", "av"), "env": r.get("env", "ok"), "pre": r["pre"],
                         "calls": r["program"], "scenario": label}
            if r.get("failure_site") == "hang" and not _confirm_hang(ck, table, r):
                ck.notes.append({"unconfirmed_hang": r["case"]})
                continue
            ck.divergence(sig_of(r), r)
        elif ty == "drift":
            ck.drift.append({k: r[k] for k in ("mode", "pre", "call", "t", "d", "sig", "field", "expected", "observed", "err")})
    return summ


def run(tier):
    ck = vlib.Check(PID, tier)
    vlib.build_harness(["jsep"])
    jobs = min(16, vlib.NCPU) if tier == "thorough" else min(10, vlib.NCPU)
    total_prog = total_calls = refused = 0
    exhaustive = True
    tool_errors = []
    for i, sc in enumerate(TIERS[tier]):
        tag = f"{tier}{i}"
        try:
            table, tres = gen_table(ck, sc, tag)
            programs, pres_ = gen_programs(ck, sc, tag)
            nprog = pres_["counts"]["PROGRAM"]
            if sc["kind"] == "bounded":
                expect = ncalls(sc["local"], sc["remote"], sc.get("ops", MEDIA_OPS)) ** sc["maxlen"] * len(sc["pres"])
                if nprog != expect:
                    raise vlib.ToolError(f"{sc['label']}: TLC printed {nprog} programs, expected {expect}")
                exhaustive = exhaustive and pres_["finished"] and tres["finished"]
            summ = replay_programs(ck, table, programs, sc["label"], jobs)
            if summ["programs"] != nprog * len(sc["modes"]) * len(sc["medias"]) * len(sc["envs"]):
                raise vlib.ToolError(f"{sc['label']}: {summ['programs']} program runs for {nprog} programs x "
                                     f"{len(sc['modes'])} modes x {len(sc['medias'])} media sets")
        except vlib.ToolError as e:
            # a scenario that could not be run is never a verdict, but it must not hide what the others found
            tool_errors.append(f"{sc['label']}: {e}")
            exhaustive = False
            continue
        total_prog += summ["programs"]
        total_calls += summ["calls"]
        refused += summ["programs_with_refused_call"]
        ck.notes.append({"label": sc["label"], "pres": sc["pres"], "modes": sc["modes"], "medias": sc["medias"],
                         "envs": sc["envs"],
                         "remote_classes": sc["remote"],
                         **{k: summ[k] for k in ("programs", "calls", "ok", "err", "panic", "programs_with_refused_call",
                                                 "table_edges", "table_edges_hit_per_mode", "rows_suppressed")}})
        with open(programs) as f:
            for j, line in enumerate(f):
                if j in (0, 500, 50000) and len(ck.cov["samples"]) < 8:
                    ck.cov["samples"].append(json.loads(line))
        if os.path.getsize(programs) > 100_000_000:
            os.remove(programs)
    if tool_errors:
        ck.notes.append({"tool_errors": tool_errors})
        if not ck.violations:
            raise vlib.ToolError("; ".join(tool_errors))
        vlib.log("TOOL-ERROR in a scenario (violations found elsewhere are reported): " + "; ".join(tool_errors))
    ck.cov["traces_validated_against_impl"] = total_prog
    ck.cov["evaluations"] = total_calls
    ck.cov["distinct_nontrivial"] = refused
    ck.cov["exhaustive"] = bool(exhaustive)
    ck.cov["rule"] = ("every call sequence of the listed length over {create_offer, create_answer, close, "
                      "set_local(offer|answer|pranswer x fresh|changed|unchanged, rollback), set_remote(offer|answer|"
                      "pranswer x fresh|changed|unchanged|no-fingerprint|bad-algorithm|mid-65535, rollback)} from a "
                      "fresh, a negotiated-as-offerer and a negotiated-as-answerer connection in WebRtc, Srtp and Rtp "
                      "mode, and (with the class other-certificate-fingerprint) from a really connected WebRtc pair, is "
                      "executed on a real PeerConnection; after every call: outcome and signaling state against the TLC "
                      "table (TableConformance; a panic is rule Returns), description slots, and the complete projection "
                      "(state, both descriptions, mid/direction/payload map/extmap of every transceiver) against the "
                      "pre-call projection when the call did not succeed (FailureAtomic). non-trivial = program runs "
                      "containing at least one refused call (the atomicity rule's antecedent)")
    ck.assumptions += [
        "bounded: program length, initial conditions, modes and description classes as listed in notes/tlc_runs; "
        "connections have one audio and one video transceiver",
        "descriptions are produced by real peer objects of the same transport mode (template pairs; the live peer in the "
        "connected scenario) and mutated for the changed/malformed classes; except in the connected scenario ICE "
        "candidates are stripped so that no transport connects in the background",
        "projection through the public API only: signaling_state, local/remote_description (local compared modulo the "
        "candidate/port/connection lines the gathering task rewrites), get_transceivers -> mid, direction, payload map, extmap",
        "a program stops at its first divergence (model and implementation no longer agree on the state)",
        "what close() does to the stored descriptions and whether an allowed call with a stack-produced description "
        "succeeds are outside the statement (EXT, reported as DRIFT)",
    ]
    ck.finish()


def _scenario_of(case):
    for tier in ("quick", "thorough"):
        for sc in TIERS[tier]:
            if sc["label"] == case.get("scenario"):
                return sc
    return TIERS["quick"][1] if case["pre"] == "connected" else TIERS["quick"][0]


def replay(path):
    ck = vlib.Check(PID, "quick")
    vlib.build_harness(["jsep"])
    with open(path) as f:
        rec = json.load(f)
    case = rec["record"]["case"]
    sc = dict(_scenario_of(case))
    sc.update(modes=(case["mode"],), medias=(case.get("media", "av"),), envs=(case.get("env", "ok"),), pres=(case["pre"],))
    table, _ = gen_table(ck, sc, "replay")
    pp = os.path.join(ck.dir, "replay_one_program.ndjson")
    vlib.write_ndjson(pp, [{"pre": case["pre"], "modes": [case["mode"]], "medias": [case.get("media", "av")],
                            "envs": [case.get("env", "ok")], "calls": case["calls"]}])
    summ = replay_programs(ck, table, pp, "replay_one", 2)
    ck.cov.update(traces_validated_against_impl=summ["programs"], evaluations=summ["calls"], samples=[case])
    ck.finish()


def selftest():
    """Negative controls on the machinery itself:
    (i) each named deviation of the pinned code, switched on, violates the property it is about in TLC;
    (ii) a corrupted oracle table (one transition redirected / slot update dropped) makes the replayer diverge."""
    ck = vlib.Check(PID + "-selftest", "quick")
    ok = True
    sc = TIERS["quick"][0]
    for dev, prop in (("MutateBeforeCheck", ("FailureAtomic",)), ("CommitBeforeFail", ("FailureAtomic", "SlotsConsistent")),
                      ("PanicOnMid65535", ("TableConformance",))):
        cfg = os.path.join(vlib.SPEC, "MC_Jsep_selftest.gen.cfg")
        write_cfg(cfg, sc, 8, "view", "NoEmit", deviations='{"%s"}' % dev)
        res = tlc_retry("MC_Jsep", os.path.basename(cfg), timeout=300, workers=2, tag="MC_Jsep_selftest")
        os.remove(cfg)
        hit = any(p in l for p in prop for l in res["errors"] + res["raw_tail"] if "violated" in l)
        print(f"selftest: Deviations={{{dev}}} violates {'/'.join(prop)}: {hit}")
        ok = ok and hit
    vlib.build_harness(["jsep"])
    small = scen("selftest/len2", "bounded", 2, ("fresh",))
    table, _ = gen_table(ck, small, "selftest")
    progs, _ = gen_programs(ck, small, "selftest")
    rows = vlib.read_ndjson(table)

    def redirect(e):
        if (e["call"]["op"], e["call"]["t"], e["res"], e["from"]["sig"]) == ("set_local", "offer", "Ok", "Stable"):
            e["to"]["sig"] = "Stable"

    def slot(e):
        if (e["call"]["op"], e["res"]) == ("set_remote", "Ok"):
            e["to"]["remote"] = "same"

    for name, fn in (("redirect", redirect), ("slot", slot)):
        bad = json.loads(json.dumps(rows))
        for e in bad:
            fn(e)
        bp = os.path.join(ck.dir, f"table_{name}.ndjson")
        vlib.write_ndjson(bp, bad)
        out = os.path.join(ck.dir, f"selftest_{name}.ndjson")
        vlib.run_bin("jsep", [bp, progs, out, "4"], timeout=600)
        n = sum(1 for r in vlib.read_ndjson(out) if r.get("type") == "divergence" and r.get("rule") == "TableConformance")
        print(f"selftest: corrupted table ({name}) -> {n} TableConformance divergence rows")
        ok = ok and n > 0
    raise SystemExit(0 if ok else 2)
