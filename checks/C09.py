"""C09 - signaling state follows the JSEP state machine; rejected calls change nothing.

Jsep.tla is checked by TLC (TableConformance, FailureAtomic, ClosedIsTerminal, SlotsConsistent) and
used twice as a generator: (1) the complete abstract transition table (state, call, outcome) ->
post-state, which is the oracle the replayer follows; (2) every call sequence of the bounded length
from every initial condition (G-bounded), plus random deeper ones in the thorough tier (G-sim).
Every program is executed in every transport mode on a real PeerConnection whose descriptions come
from a real peer object; after every call the projection is compared with the table and, when the
call did not succeed, with the projection before the call."""
import json
import os
import vlib

PID = "C09"
MODES = '{"WebRtc", "Srtp", "Rtp"}'
LOCAL = '{"fresh", "changed", "unchanged"}'
REMOTE = '{"fresh", "changed", "unchanged", "nofp", "badalg", "mid65535"}'
NCALLS = 3 + (3 * 3 + 1) + (3 * 6 + 1)  # |Calls| for the class sets above

TIERS = {
    # label, kind, MaxLen, Pres, simulate
    "quick": [("all-sequences/len3", "bounded", 3, '{"fresh", "offerer", "answerer"}', None)],
    "thorough": [
        ("all-sequences/len3", "bounded", 3, '{"fresh", "offerer", "answerer"}', None),
        ("all-sequences/len4/fresh", "bounded", 4, '{"fresh"}', None),
        ("random/len6", "sim", 6, '{"fresh", "offerer", "answerer"}', 60000),
    ],
}


def write_cfg(path, maxlen, pres, view, emit, inv="", deviations="{}"):
    with open(path, "w") as f:
        f.write(f"""SPECIFICATION Spec
CONSTANTS
  Pres = {pres}
  Modes = {MODES}
  LocalClasses = {LOCAL}
  RemoteClasses = {REMOTE}
  MaxLen = {maxlen}
  Deviations = {deviations}
VIEW {view}
INVARIANTS TypeOK SlotsConsistent {inv}
PROPERTIES TableConformance FailureAtomic ClosedIsTerminal
ACTION_CONSTRAINT {emit}
CHECK_DEADLOCK FALSE
""")


def sig_of(d):
    return {"sub": "jsep", "rule": d.get("rule"), "call": d.get("call"), "t": d.get("t"), "d": d.get("d"),
            "sig": d.get("sig"), "field": (d.get("field") or "").split(".")[0], "failure_site": d.get("failure_site")}


def gen_table(ck, tag):
    """The whole abstract graph: design check + oracle table."""
    cfg = os.path.join(vlib.SPEC, f"MC_Jsep_table_{tag}.gen.cfg")
    write_cfg(cfg, 8, '{"fresh", "offerer", "answerer"}', "view", "EmitEdge")
    table = os.path.join(ck.dir, "table.ndjson")
    res = vlib.tlc("MC_Jsep", os.path.basename(cfg), tags=("EDGE",), sinks={"EDGE": table}, timeout=300, workers=1,
                   tag=f"MC_Jsep_table_{tag}")
    os.remove(cfg)
    vlib.tlc_ok(res, "table")
    ck.add_tlc(res, "abstract graph (design check + oracle table)")
    return table, res


def gen_programs(ck, label, kind, maxlen, pres, sim, tag):
    cfg = os.path.join(vlib.SPEC, f"MC_Jsep_prog_{tag}.gen.cfg")
    out = os.path.join(ck.dir, f"programs_{tag}.ndjson")
    if kind == "bounded":
        write_cfg(cfg, maxlen, pres, "progView", "NoEmit", inv="EmitProgram")
        res = vlib.tlc("MC_Jsep", os.path.basename(cfg), tags=("PROGRAM",), sinks={"PROGRAM": out}, timeout=3000,
                       workers=1, heap="8g", tag=f"MC_Jsep_prog_{tag}")
    else:
        write_cfg(cfg, maxlen, pres, "progView", "NoEmit", inv="EmitSim")
        res = vlib.tlc("MC_Jsep", os.path.basename(cfg), tags=("PROGRAM",), sinks={"PROGRAM": out}, timeout=3000,
                       workers=1, simulate=sim, depth=maxlen + 1, tag=f"MC_Jsep_prog_{tag}")
        res["finished"] = True
    os.remove(cfg)
    vlib.tlc_ok(res, label)
    ck.add_tlc(res, label)
    if kind == "sim":  # random behaviours repeat: keep one copy of each program
        seen, rows = set(), []
        with open(out) as f:
            for line in f:
                if line not in seen:
                    seen.add(line)
                    rows.append(line)
        with open(out, "w") as f:
            f.writelines(rows)
        res["counts"]["PROGRAM"] = len(rows)
    return out, res


def replay_programs(ck, table, programs, label, jobs):
    out = os.path.join(ck.dir, f"replay_{label.replace('/', '_')}.ndjson")
    p = vlib.run_bin("jsep", [table, programs, out, str(jobs)], timeout=3400)
    if p.returncode != 0:
        raise vlib.ToolError(f"jsep replayer failed rc={p.returncode}: {p.stderr[-2000:]}")
    rows = vlib.read_ndjson(out)
    summ = [r for r in rows if r.get("type") == "summary"][0]
    for r in rows:
        ty = r.get("type")
        if ty == "tool_error":
            raise vlib.ToolError(f"jsep harness: {json.dumps(r)[:600]}")
        if ty == "divergence":
            r["case"] = {"mode": r["mode"], "pre": r["pre"], "calls": r["program"]}
            ck.divergence(sig_of(r), r)
        elif ty == "drift":
            ck.drift.append({k: r[k] for k in ("mode", "pre", "call", "t", "d", "sig", "field", "expected", "observed", "err")})
    return summ


def run(tier):
    ck = vlib.Check(PID, tier)
    vlib.build_harness(["jsep"])
    table, tres = gen_table(ck, tier)
    jobs = min(16, vlib.NCPU) if tier == "thorough" else min(10, vlib.NCPU)
    total_prog = total_calls = refused = hit = 0
    exhaustive = tres["finished"]
    for i, (label, kind, maxlen, pres, sim) in enumerate(TIERS[tier]):
        programs, pres_ = gen_programs(ck, label, kind, maxlen, pres, sim, f"{tier}{i}")
        nprog = pres_["counts"]["PROGRAM"]
        if kind == "bounded":
            expect = NCALLS ** maxlen * len(pres.split(","))
            if nprog != expect:
                raise vlib.ToolError(f"{label}: TLC printed {nprog} programs, expected {expect}")
        summ = replay_programs(ck, table, programs, label, jobs)
        if summ["programs"] != nprog * 3:
            raise vlib.ToolError(f"{label}: {summ['programs']} program runs for {nprog} programs x 3 modes")
        if kind == "bounded":
            exhaustive = exhaustive and pres_["finished"]
        total_prog += summ["programs"]
        total_calls += summ["calls"]
        refused += summ["programs_with_refused_call"]
        hit = max(hit, summ["table_edges_hit_per_mode"])
        ck.notes.append({"label": label, **{k: summ[k] for k in ("programs", "calls", "ok", "err", "panic",
                                                              "programs_with_refused_call", "table_edges",
                                                              "table_edges_hit_per_mode", "rows_suppressed")}})
        with open(programs) as f:
            for j, line in enumerate(f):
                if j in (0, 1000, 50000) and len(ck.cov["samples"]) < 6:
                    ck.cov["samples"].append(json.loads(line))
        if os.path.getsize(programs) > 200_000_000:
            os.remove(programs)
    ck.cov["traces_validated_against_impl"] = total_prog
    ck.cov["evaluations"] = total_calls
    ck.cov["distinct_nontrivial"] = refused
    ck.cov["exhaustive"] = bool(exhaustive)
    ck.cov["rule"] = ("every call sequence of the listed length over {create_offer, create_answer, close, "
                      "set_local(offer|answer|pranswer x fresh|changed|unchanged, rollback), set_remote(offer|answer|"
                      "pranswer x fresh|changed|unchanged|no-fingerprint|bad-algorithm|mid-65535, rollback)} from a "
                      "fresh, a negotiated-as-offerer and a negotiated-as-answerer connection, in WebRtc, Srtp and Rtp "
                      "mode, is executed on a real PeerConnection; after every call: outcome and signaling state "
                      "against the TLC table (TableConformance), description slots, and the complete projection "
                      "(state, both descriptions, mid/direction/payload map/extmap of every transceiver) against the "
                      "pre-call projection when the call did not succeed (FailureAtomic). non-trivial = program runs "
                      "containing at least one refused call (the atomicity rule's antecedent)")
    ck.assumptions += [
        "bounded: program length and initial conditions as listed in tlc_runs; 32-call alphabet; audio+video transceivers",
        "descriptions are produced by real peer objects of the same transport mode (template pairs) and mutated for the "
        "changed/malformed classes; ICE candidates are stripped so that no transport connects in the background",
        "projection through the public API only: signaling_state, local/remote_description (local compared modulo the "
        "candidate/port/connection lines the gathering task rewrites), get_transceivers -> mid, direction, payload map, extmap",
        "what close() does to the stored descriptions and whether an allowed call with a stack-produced description "
        "succeeds are outside the statement (EXT, reported as DRIFT)",
    ]
    ck.finish()


def replay(path):
    ck = vlib.Check(PID, "quick")
    vlib.build_harness(["jsep"])
    with open(path) as f:
        rec = json.load(f)
    case = rec["record"]["case"]
    table, _ = gen_table(ck, "replay")
    pp = os.path.join(ck.dir, "replay_one_program.ndjson")
    vlib.write_ndjson(pp, [{"pre": case["pre"], "modes": [case["mode"]], "calls": case["calls"]}])
    out = os.path.join(ck.dir, "replay_one.ndjson")
    p = vlib.run_bin("jsep", [table, pp, out, "2"], timeout=300)
    if p.returncode != 0:
        raise vlib.ToolError(p.stderr[-2000:])
    for r in vlib.read_ndjson(out):
        if r.get("type") == "divergence":
            r["case"] = case
            ck.divergence(sig_of(r), r)
    ck.cov.update(traces_validated_against_impl=1, samples=[case])
    ck.finish()


def selftest():
    """Negative controls on the machinery itself:
    (i) each named deviation of the pinned code, switched on, violates the property it is about in TLC;
    (ii) a corrupted oracle table (one transition redirected / one forbidden call allowed) makes the replayer diverge."""
    ck = vlib.Check(PID + "-selftest", "quick")
    ok = True
    for dev, prop in (("MutateBeforeCheck", "FailureAtomic"), ("CommitBeforeFail", "FailureAtomic"),
                      ("PanicOnMid65535", "TableConformance")):
        cfg = os.path.join(vlib.SPEC, "MC_Jsep_selftest.gen.cfg")
        write_cfg(cfg, 8, '{"fresh", "offerer", "answerer"}', "view", "NoEmit", deviations='{"%s"}' % dev)
        res = vlib.tlc("MC_Jsep", os.path.basename(cfg), timeout=300, workers=2, tag="MC_Jsep_selftest")
        os.remove(cfg)
        hit = any(prop in e for e in res["errors"]) or any(prop in l for l in res["raw_tail"])
        print(f"selftest: Deviations={{{dev}}} violates {prop}: {hit}")
        ok = ok and hit
    vlib.build_harness(["jsep"])
    table, _ = gen_table(ck, "selftest")
    progs, _ = gen_programs(ck, "len2", "bounded", 2, '{"fresh"}', None, "selftest")
    rows = vlib.read_ndjson(table)
    for name, fn in (("redirect", lambda e: e["to"].__setitem__("sig", "Stable")
                      if (e["call"]["op"], e["call"]["t"], e["res"], e["from"]["sig"]) == ("set_local", "offer", "Ok", "Stable") else None),
                     ("slot", lambda e: e["to"].__setitem__("remote", "same")
                      if (e["call"]["op"], e["res"]) == ("set_remote", "Ok") else None)):
        bad = json.loads(json.dumps(rows))
        for e in bad:
            fn(e)
        bp = os.path.join(ck.dir, f"table_{name}.ndjson")
        vlib.write_ndjson(bp, bad)
        out = os.path.join(ck.dir, f"selftest_{name}.ndjson")
        p = vlib.run_bin("jsep", [bp, progs, out, "4"], timeout=600)
        n = sum(1 for r in vlib.read_ndjson(out) if r.get("type") == "divergence" and r.get("rule") == "TableConformance")
        print(f"selftest: corrupted table ({name}) -> {n} TableConformance divergences")
        ok = ok and n > 0
    raise SystemExit(0 if ok else 2)
