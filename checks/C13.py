"""C13 - the SCTP sender obeys packet-size, checksum, verification-tag, TSN, window and quiescence rules.

Same engine as C01/C12.  The rules are evaluated by TLC (Trace_SctpAssoc, Props = {"C13"}) on every packet
the decrypting proxy captured between two live endpoints (own SCTP reader, own CRC32c: PacketFitsMtu,
ChecksumCorrect, PeerVerificationTag, Quiescent) and on the sender's own rx/tx event order (ConsecutiveTsn,
NewDataWithinWindow, NoRtxAfterAck), over TLC-generated fault schedules and a grid of receive windows
(4..64 KiB), burst limits, congestion-window caps and RTO settings, including schedules that lose the same
chunk repeatedly so that the receiver's window closes.
"""
import json
import os
import random

import sctp_common as sc
import vlib

PID = "C13"
WRAP_A = 0xFFFFFFFD
WRAP_B = 0xFFFFFFFE


def design_checks(ck, tier):
    runs = [("set/A12", dict(mode="set", msgs="MsgsA12")),
            ("set/both", dict(mode="set", msgs="MsgsBoth", init_a="{14}", init_b="{0, 14}")),
            ("set/A123-win1", dict(mode="set", msgs="MsgsA123", init_a="{14}", init_b="{15}", win=1)),
            ("set/A123-win3", dict(mode="set", msgs="MsgsA123", init_a="{14}", init_b="{15}", win=3)),
            # receive window of 1 / 2 chunks with the delayed-SACK timer: NewDataWithinWindow at the boundary
            ("set/A123-rwnd1-delaysack", dict(mode="set", msgs="MsgsA123", init_a="{14}", init_b="{0}", win=3, rwnd=1, delay_sack="TRUE")),
            ("set/A22-rwnd2-delaysack", dict(mode="set", msgs="MsgsA22", init_a="{14}", init_b="{0}", win=3, rwnd=2, delay_sack="TRUE"))]
    for label, kw in runs:
        res = sc.tlc_mc(ck, label.replace("/", "_"), timeout=1800 if tier == "thorough" else 900, **kw)
        vlib.tlc_ok(res, label)
        ck.add_tlc(res, label)
    # the budget of transmit() that overlooks what its own retransmit phase put back in flight after a T3 expiry
    # (deviation BudgetBeforeRtx) breaks InFlightWithinWindow on the T3-under-a-closed-window model
    res = sc.tlc_mc(ck, "fifo_t3win_dev", invariants=[], properties=["InFlightWithinWindow"],
                    deviations='{"BudgetBeforeRtx"}', **T3WIN_MODEL, timeout=600)
    if not any("InFlightWithinWindow" in e for e in res["errors"]):
        raise vlib.ToolError("the BudgetBeforeRtx deviation does not violate InFlightWithinWindow on the model")
    ck.notes.append("negative control on the model: BudgetBeforeRtx violates InFlightWithinWindow (fifo, rwnd 1 chunk, outage)")


# T3 expiry while the advertised window is exhausted and more data is queued: receive window of 1 chunk (+ the one
# packet of overshoot), four chunks to send, a sender-side limit that is not the bottleneck, the peer silent (outage
# of A's DATA: everything is lost until the timer brings the first chunk back) and single losses on top
T3WIN_MODEL = dict(mode="fifo", budget=2, msgs="MsgsA22", init_a="{14}", init_b="{0}", win=4, rwnd=1,
                   action_constraint="T3WindowFaults")
T3WIN_SCHEDS = []


def gen_t3_window_schedules(ck, tier):
    path = os.path.join(ck.dir, f"sched_t3win_{tier}_{os.getpid()}.ndjson")
    kw = dict(T3WIN_MODEL, action_constraint="EmitT3WindowSched")
    res = sc.tlc_mc(ck, "fifo_t3win", fair=False, sched_sink=path, timeout=900,
                    invariants=["TypeOK", "ConsecutiveTsn", "WindowRespected", "NewDataWithinWindow"],
                    properties=["InFlightWithinWindow"], **kw)
    vlib.tlc_ok(res, "fifo T3 under a closed window")
    ck.add_tlc(res, "fifo/T3 expiry under an exhausted window (rwnd 1 chunk, outage + loss of A's DATA): InFlightWithinWindow")
    global T3WIN_SCHEDS
    T3WIN_SCHEDS = [f for f in sc.schedules_from(path) if any(x["kind"] == "outage" for x in f)]


def t3_window_scenarios(rng, tier):
    """the model's window of 1 chunk (+1) becomes an advertised window of 2-4 chunks of 900-1100 bytes (at most the
    code's retransmission burst of 4 per expiry outstanding), the model's 4 chunks become 10-12 messages submitted
    at once; the faults keep the model's chunk numbers (chunks 0..3 of the first window). RTO 60 ms (public
    configuration): one or two expiries per run. The peer is B's real endpoint; during
    the outage it receives nothing and therefore stays silent."""
    out = []
    singles = [f for f in T3WIN_SCHEDS if len(f) == 1]
    pairs = [f for f in T3WIN_SCHEDS if len(f) > 1]
    # pairs in which the retransmission that ends the outage is lost as well: a second expiry (RTO doubled)
    again = [f for f in pairs if any(x["kind"] == "drop" and x["o"] >= 2 and
                                     any(y["kind"] == "outage" and y["t"] == x["t"] for y in f) for x in f)]
    rest = [f for f in pairs if f not in again]
    scheds = singles + again + (rest if tier == "thorough" else sc.sample(rest, 6, vlib.seed() + 70))
    for i, f in enumerate(scheds):
        size = [1000, 900, 1100][i % 3]
        nwin = [3, 2, 4][(i // 3) % 3]
        g = []
        for x in f:
            g.append(dict(x))
            if f in again and x["kind"] == "drop" and x["o"] >= 2:
                # the model's window holds 2 chunks, here up to 4: the loss of the retransmitted chunk stands for
                # the loss of the whole retransmitted burst
                g += [dict(x, t=x["t"] + k) for k in range(1, 4)]
        msgs = [{"from": "A", "sid": 1, "len": size} for _ in range(10 + i % 3)]
        msgs += [{"from": "A", "sid": 1, "len": 5, "phase": 2}, {"from": "B", "sid": 1, "len": 5, "phase": 2}]
        out.append(sc.scenario(f"t3w{i:03d}", g, [sc.chan(1)], msgs,
                               cfg={"rwnd": nwin * size, "rto_initial_ms": 60, "rto_min_ms": 60, "rto_max_ms": 240,
                                    "heartbeat_ms": 15000}, idle_ms=150, deadline_ms=6000))
    return out


def generate(ck, tier):
    def g_singles():
        p1 = os.path.join(ck.dir, f"sched_b1_{tier}_{os.getpid()}.ndjson")
        res = sc.tlc_mc(ck, "fifo_b1", mode="fifo", budget=1, fair=True, msgs="MsgsA12", init_a="{14}", init_b="{0}",
                        sched_sink=p1, timeout=600)
        vlib.tlc_ok(res, "fifo budget 1")
        ck.add_tlc(res, "fifo/budget1 (single faults)")
        return sc.schedules_from(p1)

    def g_pairs():
        p2 = os.path.join(ck.dir, f"sched_b2_{tier}_{os.getpid()}.ndjson")
        res = sc.tlc_mc(ck, "fifo_b2", mode="fifo", budget=2, fair=False,
                        msgs="MsgsA12" if tier == "thorough" else "MsgsA2", init_a="{14}", init_b="{0}",
                        sched_sink=p2, timeout=2400 if tier == "thorough" else 600)
        vlib.tlc_ok(res, "fifo budget 2")
        ck.add_tlc(res, "fifo/budget2 (pairs)")
        return [s for s in sc.schedules_from(p2) if len(s) == 2], res["finished"]

    box = sc.in_parallel({"singles": g_singles, "pairs": g_pairs,
                          "window": lambda: sc.gen_window_schedules(ck, tier),
                          "bursts": lambda: gen_bursts(ck, tier),
                          "coll": lambda: sc.gen_collision_schedules(ck, tier),
                          "t3win": lambda: gen_t3_window_schedules(ck, tier)})
    global WINDOW_SCHEDS, COLLISION_SCHEDS
    WINDOW_SCHEDS, COLLISION_SCHEDS = box["window"], box["coll"]
    pairs, finished = box["pairs"]
    return box["singles"], pairs, finished


WINDOW_SCHEDS = []


BURSTS = []
COLLISION_SCHEDS = []


def gen_bursts(ck, tier):
    """SctpBatch.tla: the batcher's arithmetic over every payload length 0..1172 (invariant PacketFits); TLC prints
    the packet lengths of each uniform burst, and the bursts that leave a packet tight (<= 12 bytes free) or one
    word short of admitting another chunk become workloads - per position (first / later packet of a flush),
    kind and distance a few each"""
    sink = os.path.join(ck.dir, f"bursts_{tier}_{os.getpid()}.ndjson")
    res = vlib.tlc("MC_SctpBatch", "MC_SctpBatch.cfg", tags=("BURST",), sinks={"BURST": sink}, timeout=600, workers=1,
                   tag=f"MC_SctpBatch_{tier}_{os.getpid()}")
    vlib.tlc_ok(res, "batcher model")
    ck.add_tlc(res, "SctpBatch (payload 0..1172, burst 80): PacketFits")
    groups = {}
    for b in vlib.read_ndjson(sink):
        c = 16 + b["p"] + (-(16 + b["p"]) % 4)
        for pos in ("first", "later"):
            if b[pos] == 0:
                continue
            slack = 1200 - b[pos]
            if slack <= 12:
                groups.setdefault((pos, "tight", slack), []).append(b)
            elif 0 < c - slack <= 12:
                groups.setdefault((pos, "near", c - slack), []).append(b)
    per = 2 if tier == "quick" else 12
    out = []
    for k in sorted(groups):
        out += sc.sample(groups[k], per, vlib.seed() + 50)
    seen = set()
    global BURSTS
    BURSTS = [b for b in out if not (b["p"] in seen or seen.add(b["p"]))]
    try:
        os.remove(sink)
    except OSError:
        pass


def stretch(faults, stride):
    out = []
    for f in faults:
        g = dict(f)
        if g["k"] == "SACK":
            g["o"] = 1 + (g["o"] - 1) * stride
        if g["k"] == "DATA" and "t" in g:
            g["t"] = g["t"] * stride
        if g.get("ak") == "SACK" and g["ao"] > 0:
            g["ao"] = 1 + (g["ao"] - 1) * stride
        if g.get("ak") == "DATA" and "at" in g:
            g["at"] = g["at"] * stride
        out.append(g)
    return out


def bulk_workload(rng, total):
    """one large message and a tail of small ones each way: the window, not the application, limits the sender"""
    m = [{"from": "A", "sid": 1, "len": total}, {"from": "A", "sid": 1, "len": 1172}, {"from": "A", "sid": 1, "len": 0},
         {"from": "B", "sid": 1, "len": total // 2, "task": 1},
         {"from": "A", "sid": 1, "len": 5, "phase": 2}, {"from": "B", "sid": 1, "len": 5, "phase": 2}]
    return m


def small_workload(rng, n, size):
    """many messages smaller than a packet: the advertised window shrinks in steps that reach exactly zero"""
    m = [{"from": "A", "sid": 1, "len": size} for _ in range(n)]
    m += [{"from": "B", "sid": 1, "len": size, "task": 1} for _ in range(n // 4)]
    m += [{"from": "A", "sid": 1, "len": 5, "phase": 2}, {"from": "B", "sid": 1, "len": 5, "phase": 2}]
    return m


def repeated_loss(t, n):
    """the first n transmissions of the chunk with relative TSN t are lost (each is a schedule TLC's budgeted
    model produces: Drop of DATA(t) after Rtx; listed here by content)"""
    return [sc.F("A", "DATA", k + 1, "drop", t=t) for k in range(n)]


def build_scenarios(singles, pairs, tier):
    rng = random.Random(vlib.seed() * 104729 + 13)
    scen = [sc.scenario("clean", [], [sc.chan(1)], sc.basic_workload(rng, both=True), idle_ms=150),
            sc.scenario("clean-hb", [], [sc.chan(1)], sc.basic_workload(rng, both=True), idle_ms=250,
                        cfg={"heartbeat_ms": 80})]
    for i, f in enumerate(singles):
        scen.append(sc.scenario(f"s{i:03d}", f, [sc.chan(1)], sc.basic_workload(rng, both=True), idle_ms=100,
                                cfg={"init_tsn_a": WRAP_A, "init_tsn_b": WRAP_B} if i % 2 else None))
    for i, f in enumerate(pairs if tier == "thorough" else sc.sample(pairs, 60, vlib.seed() + 1)):
        scen.append(sc.scenario(f"p{i:04d}", f, [sc.chan(1)], sc.basic_workload(rng, both=True), idle_ms=100))
    # window / burst / cwnd / RTO grid with schedules that delay or repeatedly lose DATA (the receiver buffers
    # out-of-order data, its advertised window shrinks towards zero) or hold SACKs
    data_faults = [p for p in pairs if all(f["dir"] == "A" and f["k"] == "DATA" and f["kind"] in ("drop", "hold") for f in p)]
    sack_faults = [p for p in pairs if all(f["dir"] == "B" and f["k"] in ("SACK", "GSACK") and f["kind"] in ("drop", "hold") for f in p)]
    grid = []
    for rwnd in (4096, 16384, 65536):
        for burst in (0, 1, 4, 16):
            grid.append((rwnd, burst))
    reps = 1 if tier == "quick" else 4
    k = 0
    for rep in range(reps):
        for rwnd, burst in grid:
            cfg = {"rwnd": rwnd, "max_burst": burst, "max_cwnd": rng.choice([16 * 1024, 256 * 1024]),
                   "rto_initial_ms": rng.choice([50, 120]), "rto_min_ms": 50, "rto_max_ms": 200,
                   "max_hold_ms": rng.choice([150, 400]), "heartbeat_ms": rng.choice([15000, 90])}
            for kind in ("clean", "data", "sack"):
                if kind == "clean":
                    f = []
                elif kind == "data":
                    f = stretch(rng.choice(data_faults), rng.choice([1, 2, 5])) if data_faults else []
                else:
                    f = stretch(rng.choice(sack_faults), rng.choice([1, 2, 3])) if sack_faults else []
                total = rng.choice([20000, 65536]) if tier == "quick" else rng.choice([20000, 65536, 262144])
                scen.append(sc.scenario(f"w{k:03d}", f, [sc.chan(1)], bulk_workload(rng, total), cfg=cfg,
                                        idle_ms=200, deadline_ms=6000))
                k += 1
            # closing window: the same chunk is lost 2-3 times while small messages keep arriving behind it
            f = repeated_loss(rng.choice([1, 2, 3]), rng.choice([2, 3]))
            n = max(24, 3 * rwnd // 500) if rwnd <= 16384 else 160
            scen.append(sc.scenario(f"w{k:03d}", f, [sc.chan(1)], small_workload(rng, n, rng.choice([300, 500, 700])),
                                    cfg=cfg, idle_ms=200, deadline_ms=6000))
            k += 1
    # bursts that fill packets to the brim or leave them one word short of another chunk (first and later packets
    # of one flush): 80 equal messages queued back to back, each way
    for i, b in enumerate(BURSTS):
        msgs = [{"from": "A", "sid": 1, "len": b["p"]} for _ in range(b["n"])]
        msgs += [{"from": "B", "sid": 1, "len": b["p"], "task": 1} for _ in range(b["n"] // 2)]
        msgs += [{"from": "A", "sid": 1, "len": 5, "phase": 2}, {"from": "B", "sid": 1, "len": 5, "phase": 2}]
        scen.append(sc.scenario(f"b{i:03d}", [], [sc.chan(1)], msgs, idle_ms=60, cfg={"max_burst": [0, 16][i % 2]}))
    # INIT collision (both ends send INIT): every rule, and in particular Quiescent over a window that is longer than
    # two maximal T1 intervals
    scen += sc.collision_scenarios(COLLISION_SCHEDS, rng, limit=30 if tier == "quick" else 300, seed=vlib.seed() + 60)
    # advertised window of exactly zero: TLC's closing-window schedules on a 1.5-3 KiB receive window
    scen += sc.window_scenarios(WINDOW_SCHEDS, rng, idle_ms=150, limit=40 if tier == "quick" else 400, seed=vlib.seed() + 30)
    # T3 expiry while the advertised window is exhausted, the peer silent and more data queued
    scen += t3_window_scenarios(rng, tier)
    return scen


def run(tier):
    ck = vlib.Check(PID, tier)
    vlib.build_harness(["sctp"])
    design_checks(ck, tier)
    singles, pairs, gen_finished = generate(ck, tier)
    scen = build_scenarios(singles, pairs, tier)
    by_id = sc.run_scenarios(ck, scen, "main", nproc=8 if tier == "quick" else 12, timeout=3000)
    bad, ext, nev, res = sc.validate(ck, PID, scen, by_id, "main", timeout=2400)
    ck.add_tlc(res, "trace validation")
    sc.record_results(ck, PID, scen, by_id, bad, ext)
    npkts = 0
    zero_window = 0
    quiet = 0
    rtx = 0
    tight = set()
    cfgs = set()
    for s in scen:
        seen = set()
        z = False
        for e in by_id[s["id"]]:
            if e["comp"] == "net" and e["act"] in ("fwd", "drop", "dup", "hold", "duplate"):
                npkts += 1
                for c in e["chunks"]:
                    if c["type"] == 3 and c.get("rwnd", 1 << 20) < 1200:
                        tight.add(s["id"])
                    if c["type"] == 3 and c.get("rwnd", 1) == 0:
                        z = True
                    if c["type"] == 0:
                        key = (e["dir"], c["tsn"])
                        if key in seen:
                            rtx += 1
                        seen.add(key)
            if e["comp"] == "app" and e["ev"] == "quiet_begin":
                quiet += 1
        zero_window += 1 if z else 0
        cfgs.add(json.dumps([s["cfg"], s["faults"]], sort_keys=True))
    ck.cov["traces_validated_against_impl"] = len(scen)
    ck.cov["evaluations"] = npkts
    ck.cov["distinct_nontrivial"] = len(cfgs)
    ck.cov["rule"] = ("every SCTP packet captured on the wire between the two real endpoints (evaluations = packets) and "
                      "every tx/rx event of the senders, over TLC-generated single faults / sampled pairs and a grid of "
                      "receive window x burst x cwnd x RTO settings; non-trivial = distinct (configuration, schedule); "
                      f"runs with an advertised window below one packet: {len(tight)}, of which zero: {zero_window}, quiet windows observed: {quiet}, "
                      f"retransmitted DATA chunks seen: {rtx}")
    ck.cov["samples"] = [{"scenario": s["id"], "faults": s["faults"], "cfg": s["cfg"]} for s in scen[2:4] + scen[-3:]]
    ck.cov["exhaustive"] = False
    ck.notes.append(f"tight_window_runs={len(tight)} zero_window_runs={zero_window} quiet_windows={quiet} retransmissions={rtx} packets={npkts}")
    ck.assumptions += [
        "NewDataWithinWindow is the black-box reading: between two SACKs (or a T3 expiry) the sender injects at most "
        "a_rwnd of the last SACK it processed + one packet (1200 B) of new user data; cwnd is deliberately unconstrained",
        "NoRtxAfterAck is judged by the sender's own rx/tx event order (same run-loop task), not by the proxy's delivery time",
        "Quiescent is evaluated in a 100-250 ms window opened after both retransmission queues, both outbound queues and "
        "both reassembly queues were observed empty and no event occurred for 3 x rto_min",
        "sampled configurations / schedules (seeded by VERIF_SEED); not exhaustive",
        "trusted: TLC, the proxy's record decryption, SCTP reader and CRC32c, the event hooks (add-only, cfg rustrtc_verif)",
    ]
    sc.cleanup(ck)
    ck.finish()


def replay(path):
    ck = vlib.Check(PID, "quick")
    vlib.build_harness(["sctp"])
    with open(path) as f:
        rec = json.load(f)
    s = rec["record"]["scenario"]
    by_id = sc.run_scenarios(ck, [s], "replay", nproc=1)
    bad, ext, nev, res = sc.validate(ck, PID, [s], by_id, "replay")
    sc.record_results(ck, PID, [s], by_id, bad, ext)
    ck.cov.update(states=res["distinct"], transitions=res["generated"], traces_validated_against_impl=1,
                  evaluations=nev, samples=[{"scenario": s["id"], "faults": s["faults"]}])
    ck.finish()


def selftest():
    """corrupt one field of a recorded run per rule and show the trace is rejected by that rule"""
    ck = vlib.Check(PID + "-selftest", "quick")
    vlib.build_harness(["sctp"])
    rng = random.Random(1)
    s = sc.scenario("bulk", [sc.F("A", "DATA", 1, "drop", t=3)], [sc.chan(1)], bulk_workload(rng, 20000),
                    cfg={"rwnd": 4096}, idle_ms=150, deadline_ms=6000)
    by = sc.run_scenarios(ck, [s], "selftest", nproc=1)
    ev = by["bulk"]

    def idx(pred):
        return next(i for i, e in enumerate(ev) if pred(e))
    i_net = idx(lambda e: e["comp"] == "net" and any(c["type"] == 0 for c in e["chunks"]))
    i_tx = [i for i, e in enumerate(ev) if e["comp"] == "sctp" and e["ev"] == "tx" and e["inst"] == "A"
            and any(c["type"] == 0 for c in e["chunks"])]
    def all_sacks_closed(l):
        return [dict(e, rwnd=0) if (e["comp"] == "sctp" and e["ev"] == "rx" and e["inst"] == "A" and e["type"] == 3) else e
                for e in l]
    i_quiet = idx(lambda e: e["comp"] == "app" and e["ev"] == "quiet_begin")

    def sacks_cover_nothing(l):
        """every SACK the sender processed acknowledges nothing (cumulative TSN below its first chunk, no gap
        blocks, the window as advertised): per SACK interval little is injected, but what is in flight piles up"""
        out = []
        for e in l:
            if e["comp"] == "sctp" and e["inst"] == "A" and e["ev"] == "sackfx":
                continue
            if e["comp"] == "sctp" and e["ev"] == "rx" and e["inst"] == "A" and e["type"] == 3:
                e = dict(e, cum=(first_tsn - 1) & 0xFFFFFFFF, gaps=[])
            out.append(e)
        return out

    def edit(i, **kw):
        def f(l):
            l = list(l)
            l[i] = dict(l[i], **kw)
            return l
        return f

    def edit_chunk(i, **kw):
        def f(l):
            l = list(l)
            e = json.loads(json.dumps(l[i]))
            for c in e["chunks"]:
                if c["type"] == 0:
                    c.update(kw)
                    break
            l[i] = e
            return l
        return f
    first_tx = ev[i_tx[0]]
    first_tsn = next(c["tsn"] for c in first_tx["chunks"] if c["type"] == 0)
    muts = {
        "oversize": (edit(i_net, len=1201), "PacketFitsMtu"),
        "bad-crc": (edit(i_net, crc_ok=False), "ChecksumCorrect"),
        "stale-tag": (edit(i_net, vtag=12345), "PeerVerificationTag"),
        "skipped-tsn": (edit_chunk(i_tx[2], tsn=(first_tsn + 7) & 0xFFFFFFFF), "ConsecutiveTsn"),
        # every SACK the sender processed advertised a closed window: what it kept sending is too much
        "window-ignored": (all_sacks_closed, "NewDataWithinWindow"),
        # nothing is ever acknowledged, yet new data keeps leaving: far more than the window is in flight
        "flight-ignored": (sacks_cover_nothing, "InFlightWithinWindow"),
        # a late retransmission of a chunk that a processed SACK had covered
        "rtx-after-ack": (lambda l: l[:i_quiet] + [dict(first_tx)] + l[i_quiet:], "NoRtxAfterAck"),
        "chatter": (lambda l: l[:i_quiet + 1] + [dict(ev[i_net])] + l[i_quiet + 1:], "Quiescent"),
    }
    oks = []
    for name, (mut, rule) in muts.items():
        bad, _, _, _ = sc.validate(ck, PID, [s], {"bulk": mut(list(ev))}, "selftest_" + name)
        ok = any(b["rule"] == rule for b in bad)
        oks.append(ok)
        print(f"selftest: corrupted trace ({name}) rejected by {rule}:", ok, sorted({b['rule'] for b in bad}))
    bad, _, _, _ = sc.validate(ck, PID, [s], by, "selftest_clean")
    print("selftest: unmodified trace accepted:", not bad, [b["rule"] for b in bad][:5])
    raise SystemExit(0 if all(oks) and not bad else 2)
