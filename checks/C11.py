"""C11 - DTLS handshakes converge under loss / duplication / reordering / re-fragmentation.

TLC checks the handshake specification (DtlsHandshake.tla) on a budgeted fault network
(MC_DtlsHandshake.tla): KeyAgree / AppReadable as invariants, Converge (finitely many faults => both
endpoints Connected) under fairness, and prints every content-addressed fault schedule it explored.
Each schedule is executed between two real DtlsTransports through the record-aware proxy; the final
observation is compared with the property and the recorded hook events are validated step by step against
Trace_DtlsHandshake.tla."""
import json
import os

import dtls_common as dc
import vlib

PID = "C11"
REPACK = ["merge2", "merge3", "merge4", "coal2", "coal4"]
ALL_KINDS = ["drop", "dup", "hold1", "hold2", "split2", "split3", "splitov"] + REPACK
FRAG_KINDS = ["split2", "split3", "splitov", "dup", "hold1", "drop", "merge2", "merge4"]
INV = ["KeyAgree", "AppReadable"]

# Trace rules whose violation contradicts C11 itself (agreement on keys, Connected only after a verified
# Finished, no failure where the handshake must go on, reassembled bytes = sent bytes). The other rules of
# Trace_DtlsHandshake (sequencing, flight contents, retransmission contract, projections) describe *how* the
# specification converges; a run that leaves them is reported as DRIFT.
PROPERTY_RULES = {"KeyAgreement", "ConnectedOnlyWhenSpecConnects", "FailOnlyWhenSpecFails", "Reassembly", "Decrypt"}

TICK_MS = 40
DEADLINE_MS = 3000   # 75 ticks


def _cfg(name):
    return os.path.join(vlib.SPEC, f"MC_DtlsHandshake_{name}_{os.getpid()}.gen.cfg")


def _run_tlc(ck, label, *, timeout=900, workers=6, tags=(), sinks=None, simulate=None, depth=None, **kw):
    # kw: arguments of dtls_common.write_mc_cfg (deviations, net_kinds, budgets, server_hvr, ...)
    path = _cfg(label.replace("/", "_"))
    dc.write_mc_cfg(path, **kw)
    try:
        res = vlib.tlc("MC_DtlsHandshake", os.path.basename(path), workers=workers, timeout=timeout, tags=tags,
                       sinks=sinks, simulate=simulate, depth=depth, tag=f"c11_{label}", heap="6g")
    finally:
        try:
            os.remove(path)
        except OSError:
            pass
    if simulate:
        # simulation is stopped by its trace count; only errors matter
        if res["errors"]:
            vlib.log("\n".join(res["raw_tail"]))
            raise vlib.ToolError(f"TLC error in {label}: {res['errors'][:2]}")
    else:
        vlib.tlc_ok(res, label)
    ck.add_tlc(res, label)
    return res


def evaluate(outcome):
    """Compare one observation with what C11 states. Returns (divergences, liveness_candidate)."""
    out = []
    sid = outcome["id"]
    base = {"id": sid, "ops": outcome.get("scenario", {}).get("tlc_ops"), "scenario": outcome.get("scenario")}
    if "panic" in outcome:
        return [({"sub": "dtls", "rule": "NoPanic"}, dict(base, panic=outcome["panic"]))], None
    obs = outcome["obs"]
    fin = obs["final"]
    cand = None
    if obs.get("both_connected"):
        for field, ok in (("keys", obs["keys_equal"] and obs["master_equal"]),
                          ("profile", obs["profile"]["C"] == obs["profile"]["S"]),
                          ("exporter", obs["exporter_equal"])):
            if not ok:
                out.append(({"sub": "dtls", "rule": "KeyAgreement", "field": field}, dict(base, obs=obs)))
        for d in ("C>S", "S>C"):
            if obs["app"][d]["result"] != "ok":
                out.append(({"sub": "dtls", "rule": "AppDataReadable", "dir": d, "result": obs["app"][d]["result"]},
                            dict(base, obs=obs)))
    else:
        # finitely many faults, deadline 75 retransmission ticks away: both must have connected.
        # Reported only after confirmation (see confirm_liveness).
        cand = ({"sub": "dtls", "rule": "Converge", "C": fin["C"], "S": fin["S"]}, dict(base, obs=obs))
    if obs.get("stray_app", 0):
        out.append(({"sub": "dtls", "rule": "NoStrayAppData"}, dict(base, obs=obs)))
    return out, cand


def confirm_liveness(ck, cands):
    """A liveness failure is reported only if the same content-addressed schedule fails three more times:
    two parallel batches, then each still-failing schedule once more on its own."""
    alive = list(cands)
    history = {rec["id"]: [] for _, rec in alive}
    for rnd in range(3):
        if not alive:
            break
        if rnd == 2:
            # the solo pass is slow (a deadline each): at most 6 schedules per signature go through it, the
            # rest is dropped unreported (the signature is reported through the confirmed ones)
            per_sig, keep = {}, []
            for sig, rec in alive:
                k = json.dumps(sig, sort_keys=True)
                per_sig[k] = per_sig.get(k, 0) + 1
                if per_sig[k] <= 6:
                    keep.append((sig, rec))
            if len(keep) < len(alive):
                ck.notes.append(f"{len(alive) - len(keep)} further schedules failed twice with an already confirmed signature; not individually confirmed")
            alive = keep
        reps = [dict(rec["scenario"], id=f"{rec['id']}_c{rnd}") for _, rec in alive]
        if rnd < 2:
            outs = dc.run_scenarios(ck, reps, f"confirm{rnd}", nproc=4)
        else:
            outs = [dc.run_scenarios(ck, [r], f"confirm{rnd}", nproc=1)[0] for r in reps]
        nxt = []
        for (sig, rec), o in zip(alive, outs):
            if "panic" not in o and o["obs"].get("both_connected"):
                continue                                     # it converged this time: not reported
            history[rec["id"]].append("panic" if "panic" in o else o["obs"]["final"])
            nxt.append((sig, rec))
        alive = nxt
    return [(sig, dict(rec, confirmations=history[rec["id"]])) for sig, rec in alive]


def run(tier):
    ck = vlib.Check(PID, tier)
    vlib.build_harness(["dtlshs"])
    thorough = tier == "thorough"
    d = ck.dir

    # 1. intended design (no deviation): properties hold, budget 1
    _run_tlc(ck, "design_b1", spec="FairSpec", deviations=[], net_kinds=ALL_KINDS, net_budget=1,
             invariants=INV, properties=["Converge"])
    # 2. the model of the pinned tree (open C02 deviation only): check + generate single-fault schedules
    s1 = os.path.join(d, "sched_b1.ndjson")
    r1 = _run_tlc(ck, "pinned_b1_gen", spec="FairSpec", deviations=dc.OPEN_DEVIATIONS, net_kinds=ALL_KINDS,
                  net_budget=1, invariants=INV, properties=["Converge"], emit="EmitSched",
                  tags=("SCHED",), sinks={"SCHED": s1}, workers=1)
    # 3. safety with the deadline able to fire anywhere (Failed endpoints in the picture)
    _run_tlc(ck, "pinned_b1_deadline", spec="Spec", deviations=dc.OPEN_DEVIATIONS, net_kinds=ALL_KINDS, net_budget=1,
             deadline=True, invariants=INV)
    rows = vlib.read_ndjson(s1)
    singles = dc.scenarios_from_sched(rows, TICK_MS, DEADLINE_MS)
    # Re-fragmentation family (both tiers, exhaustive): a message cut in two, in three, or into two overlapping
    # pieces, and then one of the pieces duplicated, overtaken or lost - every such pair on first transmissions is
    # model-checked and executed (reassembly must cope with repeats, overlaps and any order).
    sf = os.path.join(d, "sched_frag.ndjson")
    rf = _run_tlc(ck, "pinned_frag_b2_gen", spec="FairSpec", deviations=dc.OPEN_DEVIATIONS, net_kinds=FRAG_KINDS,
                  net_budget=2, max_ord=1, invariants=INV, properties=["Converge"], emit="EmitSched",
                  tags=("SCHED",), sinks={"SCHED": sf}, workers=1, timeout=900)
    frag = [x for x in dc.scenarios_from_sched(vlib.read_ndjson(sf), TICK_MS, DEADLINE_MS, always_empty=False)
            if len(x["tlc_ops"]) == 2 and x["tlc_ops"][0]["kind"] == "split" and "#" in x["tlc_ops"][1]["msg"]]
    os.remove(sf)
    pairs = []
    exhaustive_pairs = False
    if thorough:
        # every pair of faults, model-checked (safety + liveness) and emitted
        s2 = os.path.join(d, "sched_b2.ndjson")
        r2 = _run_tlc(ck, "pinned_b2_gen", spec="FairSpec", deviations=dc.OPEN_DEVIATIONS, net_kinds=ALL_KINDS,
                      net_budget=2, invariants=INV, properties=["Converge"], emit="EmitSched",
                      tags=("SCHED",), sinks={"SCHED": s2}, workers=1, timeout=3000)
        pairs = [s for s in dc.scenarios_from_sched(vlib.read_ndjson(s2), TICK_MS, DEADLINE_MS, always_empty=False)
                 if len(s["ops"]) == 2]
        exhaustive_pairs = r2["finished"]
        # without the quiet-network assumption: ticks may race with up to two datagrams in flight each way
        _run_tlc(ck, "pinned_b1_racing_ticks", spec="FairSpec", deviations=dc.OPEN_DEVIATIONS, net_kinds=ALL_KINDS,
                 net_budget=1, invariants=INV, properties=["Converge"], tick_slack=2, timeout=1500)
        s3 = os.path.join(d, "sched_b3.ndjson")
        _run_tlc(ck, "pinned_b3_sim", spec="Spec", deviations=dc.OPEN_DEVIATIONS, net_kinds=ALL_KINDS, net_budget=3,
                 invariants=INV, emit="EmitSched", tags=("SCHED",), sinks={"SCHED": s3}, workers=1,
                 simulate=4000, depth=120, timeout=1200)
        triples = [s for s in dc.scenarios_from_sched(vlib.read_ndjson(s3), TICK_MS, DEADLINE_MS, always_empty=False)
                   if len(s["ops"]) == 3][:600]
        pairs += triples
    else:
        # pairs: model-checked on the fault kinds that interact (loss, reordering, 3-way split), sampled for execution
        _run_tlc(ck, "pinned_b2_mc", spec="FairSpec", deviations=dc.OPEN_DEVIATIONS,
                 net_kinds=["drop", "hold1", "split3"], net_budget=2, max_ord=1, invariants=INV, properties=["Converge"])
        s2 = os.path.join(d, "sched_b2_sim.ndjson")
        _run_tlc(ck, "pinned_b2_sim", spec="Spec", deviations=dc.OPEN_DEVIATIONS, net_kinds=ALL_KINDS, net_budget=2,
                 invariants=INV, emit="EmitSched", tags=("SCHED",), sinks={"SCHED": s2}, workers=1,
                 simulate=600, depth=120, timeout=300)
        pairs = [s for s in dc.scenarios_from_sched(vlib.read_ndjson(s2), TICK_MS, DEADLINE_MS, always_empty=False)
                 if len(s["ops"]) == 2][:160]

    # rustrtc against the reference implementation (webrtc-rs dtls 0.17.2) through the same proxy, both roles.
    # Its server answers the first ClientHello with a HelloVerifyRequest: schedules for that pairing come from the
    # model with ServerHvr = TRUE (checked for Converge as well). Outcome comparison only (the reference emits no
    # hook events).
    sh = os.path.join(d, "sched_hvr.ndjson")
    #   reference server: cookie exchange, anti-replay window, and it never resends its final flight once it has
    #   finished (that is the deviation NoFinalFlightResend, here a property of the *peer*): convergence is required
    #   unless the schedule loses that flight (ConvergeRefS)
    _run_tlc(ck, "refS_b1_gen", spec="FairSpec", deviations=dc.OPEN_DEVIATIONS + ["NoFinalFlightResend"],
             net_kinds=ALL_KINDS, net_budget=1, invariants=INV, properties=["ConvergeRefS"], emit="EmitSched",
             tags=("SCHED",), sinks={"SCHED": sh}, workers=1, server_hvr=True, anti_replay=["S"], buffers=["S"])
    #   reference client (anti-replay window) against rustrtc's server
    _run_tlc(ck, "refC_b1", spec="FairSpec", deviations=dc.OPEN_DEVIATIONS, net_kinds=ALL_KINDS, net_budget=1,
             invariants=INV, properties=["Converge"], anti_replay=["C"], buffers=["C"])
    ref_s = [dict(x, id=x["id"] + "-refS", peer="refS") for x in dc.scenarios_from_sched(vlib.read_ndjson(sh), TICK_MS, DEADLINE_MS)]
    ref_c = [dict(x, id=x["id"] + "-refC", peer="refC") for x in singles]
    if thorough:
        sh2 = os.path.join(d, "sched_hvr_b2.ndjson")
        _run_tlc(ck, "refS_b2_sim", spec="Spec", deviations=dc.OPEN_DEVIATIONS + ["NoFinalFlightResend"], net_kinds=ALL_KINDS,
                 net_budget=2, invariants=INV, emit="EmitSched", tags=("SCHED",), sinks={"SCHED": sh2}, workers=1,
                 simulate=2000, depth=140, timeout=900, server_hvr=True, anti_replay=["S"], buffers=["S"])
        ref_s += [dict(x, id=x["id"] + "-refS", peer="refS")
                  for x in dc.scenarios_from_sched(vlib.read_ndjson(sh2), TICK_MS, DEADLINE_MS, always_empty=False)
                  if len(x["ops"]) == 2][:400]
        ref_c += [dict(x, id=x["id"] + "-refC", peer="refC") for x in pairs if len(x["ops"]) == 2][:400]
    # The reference server returns from its handshake loop once finished and never sends its final flight again
    # (dtls-0.17.2 handshaker.rs: `handshake()` returns at HandshakeState::Finished), so a schedule that loses
    # its Finished cannot converge whatever rustrtc does: not run against it (run rustrtc<->rustrtc above).
    def ref_final_lost(x):
        return any(o["dir"] == "S>C" and o["msg"] == "FIN" and o["kind"] in ("drop", "hold") for o in x["tlc_ops"])
    # Losing or delaying a *fragment on its way to the reference* exercises only the reference's reassembly, which
    # cannot recover from it: it chains fragments by exact adjacency and stays stuck on the first piece even when the
    # complete retransmitted message arrives (rustrtc does retransmit it, with fresh record numbers). Not run.
    #   Nor can it put overlapping fragments together (same adjacency chaining).
    def frag_to_ref_lost(x, to_ref):
        return any(o["dir"] == to_ref and (("#" in o["msg"] and o["kind"] in ("drop", "hold", "dup"))
                                           or (o["kind"] == "split" and o["k"] == 20)) for o in x["tlc_ops"])
    n_ref_excluded = sum(1 for x in ref_s if ref_final_lost(x) or frag_to_ref_lost(x, "C>S")) + \
        sum(1 for x in ref_c if frag_to_ref_lost(x, "S>C"))
    ref_s = [x for x in ref_s if not ref_final_lost(x) and not frag_to_ref_lost(x, "C>S")]
    ref_c = [x for x in ref_c if not frag_to_ref_lost(x, "S>C")]
    # every second reference schedule is delivered the way the reference packs it: the operations are applied per
    # record, the surviving records of a datagram travel as one datagram again (several records per datagram at rustrtc)
    ref_s = [dict(x, repack=(i % 2 == 1)) for i, x in enumerate(ref_s)]
    ref_c = [dict(x, repack=(i % 2 == 1)) for i, x in enumerate(ref_c)]
    ref_ids = {x["id"] for x in ref_s + ref_c}

    have = {x["id"] for x in singles + pairs}
    frag = [x for x in frag if x["id"] not in have]
    scenarios = singles + pairs + frag + ref_s + ref_c
    outcomes = dc.run_scenarios(ck, scenarios, tier, nproc=8 if not thorough else 12,
                                timeout=600 if not thorough else 3000)
    unfired = 0
    cands = []
    for o in outcomes:
        divs, cand = evaluate(o)
        for sig, rec in divs:
            ck.divergence(sig, rec)
        if cand:
            cands.append(cand)
        if "panic" not in o:
            unfired += sum(1 for op in o["ops"] if not op["fired"])
    for sig, rec in confirm_liveness(ck, cands):
        ck.divergence(sig, rec)

    # trace validation of every recorded run
    accepted, rejections, tres = dc.validate_traces(ck, [o for o in outcomes if o["id"] not in ref_ids],
                                                     dc.OPEN_DEVIATIONS, tier)
    # reference pairs: rustrtc's events are validated too; the reference has no hooks, so what the proxy delivered to
    # it stands for its receive events and the specification (cookie exchange, anti-replay window, no final-flight
    # resend) decides what it does with them. A mismatch there may be the reference differing from the model of it:
    # always DRIFT.
    ref_rejections = []
    for kind, devs, kw in (("refS", dc.OPEN_DEVIATIONS + ["NoFinalFlightResend"],
                            dict(server_hvr=True, anti_replay=["S"], buffers=["S"])),
                           ("refC", dc.OPEN_DEVIATIONS, dict(anti_replay=["C"], buffers=["C"]))):
        grp = [o for o in outcomes if o["scenario"].get("peer") == kind]
        if grp:
            a2, r2, t2 = dc.validate_traces(ck, grp, devs, f"{tier}_{kind}", **kw)
            accepted += a2
            ref_rejections += r2
            tres += t2
    for r in tres:
        ck.add_tlc(r, "trace_validation")
    by_id = {o["id"]: o for o in outcomes}
    for rj in ref_rejections:
        ck.drift.append({"rule": rj["rule"], "peer": by_id[rj["id"]]["scenario"].get("peer"), "event": rj["event"],
                         "id": rj["id"], "ops": by_id[rj["id"]]["scenario"].get("tlc_ops")})
    for rj in rejections:
        rec = {"id": rj["id"], "ops": by_id[rj["id"]]["scenario"].get("tlc_ops"), "rule": rj["rule"],
               "event": rj["event"], "before": rj["before"], "scenario": by_id[rj["id"]]["scenario"]}
        if rj["rule"] not in PROPERTY_RULES:
            # a step outside the handshake contract of the specification that C11 itself does not forbid
            # (C11 speaks about outcomes; those are checked above for every schedule)
            ck.drift.append({"rule": rj["rule"], "event": rj["event"], "id": rj["id"], "ops": rec["ops"]})
        else:
            ck.divergence({"sub": "dtls", "rule": rj["rule"], "ev": rj["event"]["ev"], "inst": rj["event"].get("inst")}, rec)

    rejections = rejections + ref_rejections
    dc.finish_validation(ck)
    with open(os.path.join(d, f"drift_{tier}.json"), "w") as f:
        json.dump(ck.drift, f, indent=1)
    ck.cov["traces_validated_against_impl"] = len(outcomes) + accepted
    ck.cov["evaluations"] = len(outcomes)
    ck.cov["distinct_nontrivial"] = len({json.dumps([(op["dir"], op["msg"], op["ord"], op["kind"], op.get("arg")) for op in o["ops"] if op["fired"]])
                                         for o in outcomes if "panic" not in o and any(op["fired"] for op in o["ops"])})
    ck.cov["rule"] = ("a case = one content-addressed fault schedule (direction, datagram label, ordinal, kind in drop/dup/"
                      "hold-1/hold-2/split-2/split-3) printed by TLC, executed between two real DtlsTransports; compared: "
                      "final states, session keys, master secret, SRTP profile, exporter output, one application record each "
                      "way; every hook event validated by Trace_DtlsHandshake. Non-trivial = at least one fault fired.")
    ck.cov["exhaustive"] = bool(r1["finished"]) and (not thorough or exhaustive_pairs)
    ck.cov["samples"] = [{"ops": o["scenario"].get("tlc_ops"), "final": o["obs"]["final"],
                          "t_connected_ms": o["obs"]["t_connected_ms"]} for o in outcomes[:6] if "panic" not in o]
    ck.notes.append(f"schedules: {len(singles)} single-fault (all TLC found, MaxOrd 2) + {len(pairs)} multi-fault + {len(frag)} "
                    f"split-then-fault-on-a-fragment pairs (all of them, {rf['distinct']} states); "
                    f"ops that did not fire in the real run: {unfired}; trace validation: {accepted} accepted, "
                    f"{len(rejections)} rejected")
    ck.notes.append(f"rustrtc<->reference (webrtc-rs dtls 0.17.2) pairs: {len(ref_s)} schedules with the reference as server "
                    f"(HelloVerifyRequest exchange), {len(ref_c)} with the reference as client; {n_ref_excluded} schedules not run "
                    f"against it (they lose the reference's final flight, which it never resends, or a fragment on its way to "
                    f"the reference, from which its reassembly does not recover); outcome comparison + validation of rustrtc's events")
    ck.assumptions += [
        "bounds: faults address ordinals 1..2 of each (direction, datagram label); quick: all single faults executed, "
        "pairs model-checked for drop/hold-1/split-3 on first transmissions and a seeded TLC -simulate sample of pairs executed; "
        "thorough: all pairs model-checked and executed, sampled triples",
        "model: retransmission ticks fire when the network is quiet (tick 40 ms >> loopback transit); strong fairness on ticks",
        f"liveness verdicts: tick {TICK_MS} ms, deadline {DEADLINE_MS} ms (75 ticks), a failure is confirmed by 3 reruns (last alone)",
        "trusted: TLC, the proxy's classification of epoch-0 records, loopback UDP ordering per socket pair, symbolic crypto",
    ]
    ck.finish()


def replay(path):
    ck = vlib.Check(PID, "quick")
    vlib.build_harness(["dtlshs"])
    with open(path) as f:
        rec = json.load(f)["record"]
    sc = rec["scenario"]
    outcomes = dc.run_scenarios(ck, [sc], "replay", nproc=1)
    cands = []
    for o in outcomes:
        divs, cand = evaluate(o)
        for sig, r in divs:
            ck.divergence(sig, r)
        if cand:
            cands.append(cand)
    for sig, r in confirm_liveness(ck, cands):
        ck.divergence(sig, r)
    accepted, rejections, tres = dc.validate_traces(ck, outcomes, dc.OPEN_DEVIATIONS, "replay")
    for rj in rejections:
        if rj["rule"] in PROPERTY_RULES:
            ck.divergence({"sub": "dtls", "rule": rj["rule"], "ev": rj["event"]["ev"], "inst": rj["event"].get("inst")},
                          dict(rj, scenario=sc))
    ck.cov.update(states=1, transitions=1, traces_validated_against_impl=len(outcomes), samples=[sc])
    ck.finish()


def selftest():
    """Negative controls on the model: each deviation of the pinned tree that was fixed violates Converge."""
    ck = vlib.Check(PID + "-selftest", "quick")
    ok = True
    for dev, budget, ref in (("NoFinalFlightResend", 1, False), ("LastFlightOmitsCKE", 1, False),
                             ("ReassemblyIgnoresOffset", 2, False), ("PostHvrAdoptsAnySeq", 1, True),
                             ("RetransmitReusesRecordSeq", 1, True)):
        path = _cfg("selftest")
        if ref:   # deviations that only show against a cookie-exchanging, replay-protecting server
            dc.write_mc_cfg(path, spec="FairSpec", deviations=dc.OPEN_DEVIATIONS + ["NoFinalFlightResend", dev],
                            net_kinds=["drop", "hold2"], net_budget=1, invariants=INV, properties=["ConvergeRefS"],
                            server_hvr=True, anti_replay=["S"])
        else:
            dc.write_mc_cfg(path, spec="FairSpec", deviations=dc.OPEN_DEVIATIONS + [dev],
                            net_kinds=ALL_KINDS if budget == 1 else ["hold1", "split3"], net_budget=budget,
                            max_ord=2 if budget == 1 else 1, invariants=INV, properties=["Converge"])
        res = vlib.tlc("MC_DtlsHandshake", os.path.basename(path), workers=6, timeout=900, tag="c11_selftest")
        os.remove(path)
        hit = any("Converge" in e for e in res["errors"])
        print(f"selftest: deviation {dev} violates Converge on the model: {hit}")
        ok = ok and hit
    # Negative controls on the binding: a recorded trace is accepted; with one hook event dropped or one field
    # corrupted it is rejected, at that event, under the rule that speaks about it.
    import copy
    vlib.build_harness(["dtlshs"])
    sc = dc.scenarios_from_sched([{"cfg": {"fpC": "match", "fpS": "none", "idC": "certC", "idS": "certS"},
                                   "ops": [{"dir": "S>C", "msg": "FIN", "ord": 1, "kind": "drop", "k": 0}]}], TICK_MS, DEADLINE_MS,
                                 always_empty=False)
    out = dc.run_scenarios(ck, sc, "selftest", nproc=1)[0]

    def verdict(mut):
        o = copy.deepcopy(out)
        evs = dc.normalise(o)
        evs = mut(evs)
        o2 = dict(o)
        orig = dc.normalise
        dc.normalise = lambda _o: evs
        try:
            acc, rej, _ = dc.validate_traces(ck, [o2], dc.OPEN_DEVIATIONS, "selftest")
        finally:
            dc.normalise = orig
        return acc, (rej[0]["rule"], rej[0]["event"]["ev"]) if rej else None

    def drop_flight(evs):
        i = next(k for k, e in enumerate(evs) if e["ev"] == "flight" and e["inst"] == "S" and e["why"] != "timer")
        return evs[:i] + evs[i + 1:]

    def corrupt_kh(evs):
        evs = copy.deepcopy(evs)
        next(e for e in evs if e["ev"] == "connected" and e["inst"] == "C")["kh"] = "1"
        return evs

    def flip_disp(evs):
        evs = copy.deepcopy(evs)
        next(e for e in evs if e["ev"] == "hs" and e["disp"] == "acc" and e["t"] == "SKE")["disp"] = "dup"
        return evs

    for name, mut, want in (("unchanged", lambda e: e, None), ("server flight event dropped", drop_flight, "MustResend"),
                            ("key hash of client's connected event corrupted", corrupt_kh, "KeyAgreement"),
                            ("disposition of SKE flipped to dup", flip_disp, "Sequencing")):
        acc, rej = verdict(mut)
        good = (rej is None and acc == 1) if want is None else (rej is not None and rej[0] == want)
        print(f"selftest: trace {name}: accepted={acc} rejected={rej} -> {'ok' if good else 'UNEXPECTED'}")
        ok = ok and good
    raise SystemExit(0 if ok else 2)
