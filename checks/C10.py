"""C10 - any two compatibly configured endpoints connect and exchange data and media.

LifecyclePair.tla models the layered start-up of both endpoints for every point of the configuration lattice
(mode x media x bundle x rtcp-mux x ice variant x latching x compat x offerer, filtered by Compatible); TLC checks
RolesComplementary / SameSrtpKeys / NeverFailed / eventual Connected + delivery for every lattice point and prints the
lattice, which IS the scenario list.  Each configuration is run on a real pc-pair (one data-channel message and one
RTP packet per media kind and direction); hook events of both sides (signaling commits, DTLS role, SRTP key hashes
per direction, Connected publications) and the harness's delivery verdicts are validated by TLC against
Trace_LifecyclePair."""
import json
import os
import re
import threading
from concurrent.futures import ThreadPoolExecutor

import lifecycle_common as lc
import vlib

PID = "C10"
RULES = ["C10.Lattice", "C10.Signaling", "C10.Roles", "C10.Keys", "C10.Connected", "C10.DcDelivery",
         "C10.RtpDelivery", "C10.RtpIntact", "C10.Reneg"]
LIVENESS_RULES = {"C10.Signaling", "C10.Connected", "C10.DcDelivery", "C10.RtpDelivery", "C10.Reneg"}
DEFAULT = {"mode": "WebRtc", "media": ["dc"], "bundle": "balanced", "muxA": "require", "muxB": "require", "ice": "full",
           "latchingA": False, "latchingB": False, "compatA": "Standard", "compatB": "Standard", "offerer": "A",
           "sched": "plain", "reneg": "none"}
FACTORS = ["mode", "media", "bundle", "muxA", "muxB", "ice", "latchingA", "latchingB", "compatA", "compatB", "offerer",
           "sched", "reneg"]
CHUNK = 40

LATTICE_CONSTS = """  Modes = {"WebRtc", "Srtp", "Rtp"}
  MediaSets = {{"dc"}, {"audio"}, {"video"}, {"dc", "audio"}, {"dc", "video"}, {"audio", "video"}, {"dc", "audio", "video"}}
  Bundles = {"balanced", "maxcompat"}
  Muxes = {"require", "negotiate"}
  Ices = {"full", "liteA", "liteB", "tcp", "tcpActive+tcp", "udpmuxA", "udpmuxB", "udpmuxAB", "liteA+udpmuxB", "liteB+udpmuxA"}
  Latchings = {TRUE, FALSE}
  Compats = {"Standard", "LegacySip"}
  Offerers = {"A", "B"}
  Scheds = {"plain", "slowSetRemote"}
  Renegs = {"none", "offerer", "answerer", "moved"}
"""


def tla_set(xs):
    return "{" + ", ".join('"%s"' % x for x in xs) + "}"


def mc_cfg(path, devs=(), emit=False, liveness=True):
    with open(path, "w") as f:
        f.write("SPECIFICATION Spec\nCONSTANTS\n" + LATTICE_CONSTS + f"  Deviations = {tla_set(devs)}\n"
                "INVARIANTS TypeOK RolesComplementary SameSrtpKeys NeverFailed StaysConnected\n"
                + ("PROPERTIES ConnectsAndDelivers\n" if liveness else "")
                + f"ACTION_CONSTRAINT {'EmitCfg' if emit else 'NoEmit'}\nCHECK_DEADLOCK FALSE\n")


def trace_cfg(path, props):
    with open(path, "w") as f:
        f.write("SPECIFICATION TraceSpec\nCONSTANTS\n" + LATTICE_CONSTS + "  Deviations = {}\n"
                f"  Props = {tla_set(props)}\nCONSTRAINT Furthest\nPOSTCONDITION Post\nCHECK_DEADLOCK FALSE\n")


def norm(c):
    c = dict(c)
    c["media"] = sorted(c["media"], key=["dc", "audio", "video"].index)
    return c


def key(c):
    return json.dumps(norm(c), sort_keys=True)


def distance(a, b):
    return sum(1 for f in FACTORS if norm(a)[f] != norm(b)[f])


def select_quick(lattice, seed):
    """(1) every compatible configuration one factor away from a base configuration: the default (WebRtc, data
    channel) and, per direct mode, audio+video with everything else default; (2) per direct mode with audio+video the
    product of the per-side SDP compatibility modes, the offerer and who renegotiates (transport layout per m-line
    is decided per side and per description); (3) a seeded stratified sample: for each value of each factor its closest
    representative and one random one."""
    import random
    rnd = random.Random(seed)
    chosen = {}
    bases = [DEFAULT] + [dict(DEFAULT, mode=m, media=["audio", "video"]) for m in ("Rtp", "Srtp")]
    for c in lattice:
        if any(distance(c, b) <= 1 for b in bases):
            chosen[key(c)] = c
        for b in bases[1:]:
            if all(norm(c)[f] == b[f] for f in FACTORS if f not in ("compatA", "compatB", "offerer", "reneg")):
                # (Srtp with a LegacySip offerer and two media is the open finding KF-C10-2: not multiplied here)
                if b["mode"] == "Rtp" or norm(c)["compat" + c["offerer"]] == "Standard":
                    chosen[key(c)] = c
        # a moved peer (fresh endpoint, new ports) x latching on either side x the per-side SDP modes: a latched remote
        # address has to follow the later description
        b = bases[1]
        if c["reneg"] == "moved" and all(norm(c)[f] == b[f] for f in FACTORS
                                         if f not in ("compatA", "compatB", "offerer", "reneg", "latchingA", "latchingB")):
            chosen[key(c)] = c
    for f in FACTORS:
        vals = {}
        for c in lattice:
            vals.setdefault(json.dumps(norm(c)[f]), []).append(c)
        for v, cs in sorted(vals.items()):
            best = sorted(cs, key=lambda c: (min(distance(c, b) for b in bases), key(c)))
            for c in best[:1] + rnd.sample(cs, min(1, len(cs))):
                chosen.setdefault(key(c), c)
    return [chosen[k] for k in sorted(chosen)]


def select_thorough(lattice, seed):
    """the whole lattice (about 18 min with 14 harness processes)."""
    return list(lattice)


# --------------------------------------------------------------------------- harness + validation

def run_harness(ck, scenarios, label, nshards):
    # files are written under a per-process name (two runs of this check may share the output directory) and
    # moved to the plain name afterwards, where the last run's recordings stay for inspection
    mine = f"{label}.{os.getpid()}"
    spath = os.path.join(ck.dir, f"scenarios_{mine}.ndjson")
    vlib.write_ndjson(spath, scenarios)
    outs = [os.path.join(ck.dir, f"trace_{mine}_{i}.ndjson") for i in range(nshards)]

    def one(i):
        p = vlib.run_bin("life", ["run", spath, outs[i], f"{i}/{nshards}"], timeout=2400)
        if p.returncode != 0:
            raise vlib.ToolError(f"life shard {i} failed rc={p.returncode}: {p.stderr[-1500:]}")
    try:
        with ThreadPoolExecutor(max_workers=nshards) as ex:
            list(ex.map(one, range(nshards)))
        runs = []
        for o in outs:
            runs += lc.split_scenarios(o)
    finally:
        for o in outs + [spath]:
            if os.path.exists(o):
                os.replace(o, o.replace(f".{os.getpid()}", ""))
    runs.sort(key=lambda evs: evs[0]["scenario"]["id"])
    return runs


_TRACE_RE = re.compile(r'^<<"TRACE", "(\w+)", (\d+)(?:, "(.*)")?>>$')
_lock = threading.Lock()
_ctr = [0]


def validate(ck, flat, tag):
    with _lock:
        _ctr[0] += 1
        n = _ctr[0]
    tpath = os.path.join(ck.dir, f"tv_{tag}_{n}.ndjson")
    vlib.write_ndjson(tpath, flat)
    cfg = os.path.join(vlib.SPEC, f"Trace_LifecyclePair_{os.getpid()}_{n}.gen.cfg")
    trace_cfg(cfg, ["EXT"] + RULES)
    sink = os.path.join(ck.dir, f"tv_{tag}_{n}.verdicts")
    res = vlib.tlc("Trace_LifecyclePair", os.path.basename(cfg), workers=1, timeout=900, seed_arg=False,
                   tags=("VERDICT",), sinks={"VERDICT": sink},
                   env={"TRACE": tpath,
                        "JAVA_TOOL_OPTIONS": "-Xmx4g -Xss1g -Dtlc2.tool.queue.IStateQueue=StateDeque"},
                   tag=f"trace_pair_{n}", heap="4g")
    os.remove(cfg)
    m = None
    for line in res["raw_tail"]:
        mm = _TRACE_RE.match(line)
        if mm:
            m = mm
    if res.get("timeout") or m is None:
        vlib.log("\n".join(res["raw_tail"][-30:]))
        raise vlib.ToolError(f"trace validation did not finish ({tag})")
    verdicts = {}
    for v in vlib.read_ndjson(sink):
        cur = [tuple(x) for x in v["viol"]]
        if v["id"] not in verdicts or len(cur) < len(verdicts[v["id"]]):
            verdicts[v["id"]] = cur
    for p in (tpath, sink):
        try:
            os.remove(p)
        except OSError:
            pass
    return m.group(1) == "accepted", int(m.group(2)), res, verdicts


def nice(r):
    return {k: v for k, v in r.items() if v not in ("", 0, False, [])}


def signature(c, v):
    c = norm(c)
    rule, t, inst, site = v
    side = "-"
    if inst in ("A", "B"):
        side = "offerer" if inst == c["offerer"] else "answerer"
    off, ans = c["offerer"], ("B" if c["offerer"] == "A" else "A")
    return {"sub": "lifecycle-pair", "rule": rule, "mode": c["mode"],
            "compat_offerer": c["compat" + off], "compat_answerer": c["compat" + ans],
            "compat": c["compatA"] if c["compatA"] == c["compatB"] else "mixed",
            "mux": c["muxA"] if c["muxA"] == c["muxB"] else "mixed", "ice": c["ice"],
            "nmedia": len([m for m in c["media"] if m != "dc"]), "dc": "dc" in c["media"],
            "sched": c.get("sched", "plain"), "reneg": c.get("reneg", "none"), "t": t, "side": side,
            "medium": site if t == "rtp_delivery" else "-"}


def validate_runs(ck, runs, tag):
    """-> list of (run, broken rules); structural rejections go to ck.drift."""
    out = []
    chunks = [runs[i:i + CHUNK] for i in range(0, len(runs), CHUNK)]

    def one(todo):
        res_out, tl, drift = [], [], []
        while todo:
            flat, bounds = [], []
            for r in todo:
                f = lc.flatten_c10(r)
                bounds.append((len(flat) + 1, len(flat) + len(f)))
                flat += f
            ok, idx, res, verdicts = validate(ck, flat, tag)
            tl.append((res, f"trace:pair:{len(todo)}"))
            k = len(todo) if ok else next(i for i, (a, b) in enumerate(bounds) if a <= idx <= b)
            for r in todo[:k]:
                res_out.append((r, verdicts.get(r[0]["scenario"]["id"], [])))
            if ok:
                break
            drift.append({"cfg": todo[k][0]["scenario"]["cfg"], "unexplained": nice(flat[idx - 1])})
            todo = todo[k + 1:]
        return res_out, tl, drift
    with ThreadPoolExecutor(max_workers=4) as ex:
        for res_out, tl, drift in ex.map(one, chunks):
            out += res_out
            for res, label in tl:
                ck.add_tlc(res, label)
            ck.drift += drift
    return out


def confirm(ck, sc, rule):
    """Liveness clauses: the same configuration must break the same rule three times (the last two runs alone)."""
    for n in range(2):
        runs = run_harness(ck, [dict(sc, id=sc["id"] + 500000 + n)], f"confirm_{sc['id']}_{n}", 1)
        if not runs:
            return False
        res = validate_runs(ck, runs, f"confirm{sc['id']}")
        if not any(v[0] == rule for _r, vs in res for v in vs):
            return False
    return True


def lattice_from_tlc(ck):
    cfg = os.path.join(vlib.SPEC, f"MC_LifecyclePair_emit_{os.getpid()}.gen.cfg")
    mc_cfg(cfg, emit=True, liveness=True)
    sink = os.path.join(ck.dir, "lattice.ndjson")
    res = vlib.tlc("MC_LifecyclePair", os.path.basename(cfg), tags=("CFG",), sinks={"CFG": sink}, timeout=1200,
                   tag="lifecycle_pair", heap="6g")
    os.remove(cfg)
    vlib.tlc_ok(res, "pair model / lattice emission")
    ck.add_tlc(res, "design+emit:lattice")
    seen, out = set(), []
    for c in vlib.read_ndjson(sink):
        k = key(c)
        if k not in seen:
            seen.add(k)
            out.append(norm(c))
    out.sort(key=key)
    return out, res


def run(tier):
    lc.exclusive(vlib, PID)
    ck = vlib.Check(PID, tier)
    vlib.OUT = ck.dir
    vlib.build_harness(["life"])
    lattice, res = lattice_from_tlc(ck)
    if tier == "quick":
        cfgs = select_quick(lattice, vlib.seed())
        shards = 12
    else:
        cfgs = select_thorough(lattice, vlib.seed())
        shards = 14
    scenarios = [{"id": i + 1, "kind": "c10", "cfg": c, "connect_s": 15} for i, c in enumerate(cfgs)]
    runs = run_harness(ck, scenarios, tier, shards)
    results = validate_runs(ck, runs, "grp")
    reported, nontrivial, confirmed = set(), set(), {}
    for r, broken in results:
        sc = r[0]["scenario"]
        hard = [v for v in broken if v[0] != "EXT"]
        if not hard:
            nontrivial.add(key(sc["cfg"]))
        for v in broken:
            if v[0] == "EXT":
                ck.drift.append({"cfg": sc["cfg"], "ext": list(v)})
                continue
            sig = signature(sc["cfg"], v)
            k = json.dumps(sig, sort_keys=True)
            record = {"cfg": sc["cfg"], "broken": list(v), "end": r[-1], "replay": sc}
            if v[0] in LIVENESS_RULES and k not in reported and ck.known.match(PID, sig) is None:
                # every distinct signature is re-run; at most 8 confirmations per run (a broken tree produces
                # hundreds of signatures: the first 8 confirmed ones are enough for the verdict)
                if confirmed.get('#attempts', 0) >= 8:
                    ck.notes.append(f"not confirmed (confirmation budget used up): {v} in {sc['cfg']}")
                    continue
                confirmed['#attempts'] = confirmed.get('#attempts', 0) + 1
                if confirm(ck, sc, v[0]):
                    confirmed[v[0]] = confirmed.get(v[0], 0) + 1
                else:
                    ck.notes.append(f"unconfirmed (not reproduced 3x): {v} in {sc['cfg']}")
                    continue
            reported.add(k)
            ck.divergence(sig, record)
    # cross-layer ordering of the composed Stack model on the same recordings (EXT only)
    ck.cov["stack_ordering_traces_checked"] = lc.stack_pass(ck, vlib, runs, lambda r: r[0]["scenario"]["cfg"]["mode"], tier)
    ck.cov["traces_validated_against_impl"] = len(results)
    ck.cov["evaluations"] = len(runs)
    ck.cov["distinct_nontrivial"] = len(nontrivial)
    ck.cov["lattice"] = {"points": len(lattice), "executed": len(cfgs)}
    ck.cov["samples"] = cfgs[:4]
    ck.cov["rule"] = ("a case = one point of the configuration lattice printed by TLC, run as a pc-pair with one "
                      "data-channel message and one RTP packet per media kind and direction; non-trivial = validated by "
                      "Trace_LifecyclePair with no C10 rule broken")
    ck.cov["exhaustive"] = bool(tier != "quick" and res["finished"] and len(runs) == len(lattice))
    ck.cov["direct_modes_exhaustive"] = bool(tier != "quick" and res["finished"] and
                                             sum(1 for c in cfgs if c["mode"] != "WebRtc") ==
                                             sum(1 for c in lattice if c["mode"] != "WebRtc"))
    ck.assumptions += [
        "lattice = mode x media x bundle policy x rtcp-mux x ice variant x latching x compat x offerer x schedule "
        "(plain / the offerer's set_remote_description task is held 300 ms after it started ICE) x renegotiation; "
        "rtcp-mux policy, SDP compatibility mode and latching are per-side dimensions, the ICE value encodes the "
        "per-side ICE options (lite, single-port UDP mux, ICE-TCP active/passive); filtered by "
        "Compatible (WebRtc: Standard SDP, no latching; direct modes: audio/video only, no ICE variant; Srtp: no latching)",
        "both endpoints are rustrtc, same mode, on loopback; ICE-TCP and single-port UDP mux are configured as the "
        "library's own tests do (answerer listens / owns the mux port)",
        "delivery clauses use generous deadlines (connect 15 s, delivery 5-6 s) and are re-run 3x before being reported",
    ]
    ck.finish()


def replay(path):
    lc.exclusive(vlib, PID)
    ck = vlib.Check(PID, "quick")
    vlib.OUT = ck.dir
    vlib.build_harness(["life"])
    with open(path) as f:
        rec = json.load(f)
    sc = rec["record"]["replay"]
    runs = run_harness(ck, [sc], "replay", 1)
    for r, broken in validate_runs(ck, runs, "replay"):
        for v in broken:
            if v[0] != "EXT":
                ck.divergence(signature(sc["cfg"], v), {"cfg": sc["cfg"], "broken": list(v), "replay": sc})
    ck.cov.update(traces_validated_against_impl=len(runs), samples=[sc])
    ck.finish()


def selftest():
    """(i) each deviation of the pair model violates the invariant it is about;
    (ii) a recorded good trace with a corrupted key hash / role / delivery verdict is flagged."""
    lc.exclusive(vlib, PID + "-selftest")
    ck = vlib.Check(PID + "-selftest", "quick")
    vlib.OUT = ck.dir
    ok = True
    for dev, inv in {"SdesBeforeLocalAnswer": "NeverFailed", "EqualRoles": "RolesComplementary",
                     "SctpNeedsStoredRemote": "ConnectsAndDelivers",
                     "RenegRestartsTransport": "StaysConnected",
                     "StaleRemoteAfterMove": "ConnectsAndDelivers"}.items():
        cfg = os.path.join(vlib.SPEC, f"MC_LifecyclePair_self_{dev}_{os.getpid()}.gen.cfg")
        mc_cfg(cfg, devs=[dev], liveness=(inv == "ConnectsAndDelivers"))
        res = vlib.tlc("MC_LifecyclePair", os.path.basename(cfg), workers=4, timeout=600, tag=f"selfpair_{dev}")
        os.remove(cfg)
        hit = inv in " ".join(res["errors"])
        print(f"selftest: deviation {dev} violates {inv}: {hit}")
        ok &= hit
    vlib.build_harness(["life"])
    sc = {"id": 1, "kind": "c10", "cfg": dict(DEFAULT, media=["dc", "audio"]), "connect_s": 15}
    runs = run_harness(ck, [sc], "selftest", 1)
    flat = lc.flatten_c10(runs[0])
    acc, _i, _r, vd = validate(ck, flat, "self")
    clean = acc and not [v for v in vd.get(1, []) if v[0] != "EXT"]
    print("selftest: unmodified trace accepted without broken rules:", clean)
    ok &= clean

    def mutated(fn):
        f2 = [dict(r) for r in flat]
        fn(f2)
        acc2, _i2, _r2, vd2 = validate(ck, f2, "self")
        return acc2, {v[0] for v in vd2.get(1, [])}

    def swap_key(f2):
        i = max(i for i, r in enumerate(f2) if r["t"] == "srtp_keys")
        f2[i] = dict(f2[i], x=f2[i]["reason"], reason=f2[i]["x"])
    _a, rules = mutated(swap_key)
    print("selftest: swapped tx/rx key hash on one side is flagged C10.Keys:", "C10.Keys" in rules)
    ok &= "C10.Keys" in rules

    def same_role(f2):
        for i, r in enumerate(f2):
            if r["t"] == "start_transport":
                f2[i] = dict(r, site="client")
    _a, rules = mutated(same_role)
    print("selftest: equal DTLS roles are flagged C10.Roles:", "C10.Roles" in rules)
    ok &= "C10.Roles" in rules

    def lost_rtp(f2):
        i = next(i for i, r in enumerate(f2) if r["t"] == "rtp_delivery")
        f2[i] = dict(f2[i], b1=False)
    _a, rules = mutated(lost_rtp)
    print("selftest: an undelivered RTP packet is flagged C10.RtpDelivery:", "C10.RtpDelivery" in rules)
    ok &= "C10.RtpDelivery" in rules

    def drop_sig(f2):
        i = next(i for i, r in enumerate(f2) if r["t"] == "sig" and r["site"] == "remote.offer")
        del f2[i]
    acc2, rules = mutated(drop_sig)
    print("selftest: dropping the set_remote_description(offer) commit event is rejected:", not acc2)
    ok &= not acc2
    # composed Stack model: every ordering deviation violates its property; a recorded run with the SCTP activity
    # moved in front of the DTLS key derivation is flagged by Trace_Stack
    for dev, prop in {"KeysBeforeDtls": "KeysAfterDtls", "SctpBeforeDtls": "SctpAfterDtls",
                      "OpenBeforeSctp": "OpenAfterSctp", "ConnectedEarly": "ConnectedAfterAll"}.items():
        cfg = os.path.join(vlib.SPEC, f"MC_Stack_self_{dev}_{os.getpid()}.gen.cfg")
        with open(cfg, "w") as f:
            f.write(f'SPECIFICATION Spec\nCONSTANTS\n  Mode = "WebRtc"\n  Deviations = {{"{dev}"}}\n'
                    "PROPERTIES KeysAfterDtls SctpAfterDtls OpenAfterSctp ConnectedAfterAll DtlsAfterStart\n"
                    "CHECK_DEADLOCK FALSE\n")
        res = vlib.tlc("Stack", os.path.basename(cfg), workers=2, timeout=300, tag=f"selfstack_{dev}")
        os.remove(cfg)
        hit = prop in " ".join(res["errors"])
        print(f"selftest: Stack deviation {dev} violates {prop}: {hit}")
        ok &= hit

    class _Ck:      # collects the drift of one stack pass
        def __init__(self, d):
            self.dir, self.drift = d, []

        def add_tlc(self, *_a):
            pass
    good = _Ck(ck.dir)
    lc.stack_pass(good, vlib, runs, lambda r: r[0]["scenario"]["cfg"]["mode"], "self_good")
    print("selftest: Stack ordering holds on the recorded run:", not good.drift)
    ok &= not good.drift
    orig = lc.flatten_stack

    def moved(events, mode):
        f2 = orig(events, mode)
        i = next(i for i, r in enumerate(f2) if r["t"] == "dtls_keyed" and r["inst"] == "A")
        j = next(i for i, r in enumerate(f2) if r["t"] == "sctp_act" and r["inst"] == "A")
        f2.insert(i, f2.pop(j))
        return f2
    lc.flatten_stack = moved
    bad = _Ck(ck.dir)
    lc.stack_pass(bad, vlib, runs, lambda r: r[0]["scenario"]["cfg"]["mode"], "self_bad")
    lc.flatten_stack = orig
    hit = any("EXT.SctpAfterDtls" in json.dumps(d) for d in bad.drift)
    print("selftest: SCTP activity before the DTLS key derivation is flagged EXT.SctpAfterDtls:", hit)
    ok &= hit
    raise SystemExit(0 if ok else 2)
