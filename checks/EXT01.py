"""EXT01 - JitterBuffer (src/media/jitter_buffer.rs): ordering, min delay, reorder window, capacity, restart on
SSRC change / sequence gap / timestamp jump. Specification growth beyond the listed properties: every finding is
DRIFT (exit 0); nothing here can print VIOLATION.

spec/Jitter.tla + MC_Jitter.tla, harness/src/bin/jitter.rs. See checks/_ext.py for the common shape."""
import json
import os

import _ext
import vlib

PID = "EXT01"
PINNED = '{"FirstSeqWrapNaive", "EvictNumericFirst", "NextScanNumeric"}'
DEVS = ["FirstSeqWrapNaive", "EvictNumericFirst", "NextScanNumeric"]

TIERS = {
    "quick": dict(deltas="{0, 1, 2, 3, 64, 65, 32768, 65535}", modes='{"step", "j2s", "j2s1", "b2s1", "m05", "m051"}',
                  configs="MC_ConfigsQuick", maxlen=4, sim=6000, simdepth=14, contract_len=4),
    "thorough": dict(deltas="{0, 1, 2, 3, 64, 65, 32767, 32768, 65534, 65535}",
                     modes='{"step", "j2s", "j2s1", "b2s", "b2s1", "m05", "m051"}',
                     configs="MC_Configs", maxlen=4, sim=20000, simdepth=18, contract_len=5),
}


def cfg_text(t, maxlen, deviations, emit, configs=None, check=True):
    inv = "INVARIANTS TypeOK Ordered NoStale Bounded\nPROPERTIES Delays EvictOldest\n" if check else "INVARIANTS Bounded\n"
    return f"""SPECIFICATION Spec
CONSTANTS
  Configs <- {configs or t['configs']}
  SeqDeltas = {t['deltas']}
  TsModes = {t['modes']}
  Base = 65534
  MaxLen = {maxlen}
  Deviations = {deviations}
VIEW view
{inv}ACTION_CONSTRAINT {'EmitEdge' if emit else 'NoEmit'}
CHECK_DEADLOCK FALSE
"""


def run(tier):
    ck = vlib.Check(PID, tier)
    vlib.build_harness(["jitter"])
    t = TIERS[tier]
    # 1. the documented contract holds on the intended design
    res = _ext.tlc_plain("MC_Jitter", cfg_text(t, t["contract_len"], "{}", False), f"MC_Jitter_{PID}_{tier}_contract",
                         timeout=2400 if tier == "thorough" else 600)
    vlib.tlc_ok(res, "contract, Deviations = {}")
    ck.add_tlc(res, "contract/Deviations={}")
    # 2. what each departure of the pinned code breaks, on the model; the counterexample is printed as an edge
    #    (W_* emitters) and replayed with the others, so the finding is witnessed on the real object
    model_findings = {}
    witness_files = []
    small = dict(t, deltas="{0, 1, 2, 3}", modes='{"step"}')
    for dev, rule in [("FirstSeqWrapNaive", "INVARIANTS W_NoStale"),
                      ("FirstSeqWrapNaive+NextScanNumeric", "INVARIANTS W_Ordered"),
                      ("EvictNumericFirst", "ACTION_CONSTRAINT W_Evict"),
                      ("NextScanNumeric", "INVARIANTS W_Ordered W_NoStale")]:
        dset = "{" + ", ".join(f'"{d}"' for d in dev.split("+")) + "}"
        text = cfg_text(small, 6 if "Evict" not in dev else 5, dset, False, configs="MC_ConfigsDev", check=False)
        text = text.replace("INVARIANTS Bounded\n", "INVARIANTS Bounded\n" + (rule + "\n" if rule.startswith("INV") else ""))
        if rule.startswith("ACTION"):
            text = text.replace("ACTION_CONSTRAINT NoEmit", rule)
        wf = os.path.join(ck.dir, f"witness_{tier}_{dev.replace('+', '_')}.ndjson")
        cfgp = os.path.join(vlib.SPEC, f"MC_Jitter_{PID}_{tier}_dev.gen.cfg")
        _ext.write(cfgp, text)
        r = vlib.tlc("MC_Jitter", os.path.basename(cfgp), tags=("EDGE",), sinks={"EDGE": wf}, timeout=600, heap="4g",
                     tag=f"MC_Jitter_{PID}_dev")
        os.remove(cfgp)
        found = _ext.violated(r)
        if rule.startswith("ACTION") and r["counts"]["EDGE"]:
            found = [f"Action property EvictOldest is violated ({r['counts']['EDGE']} steps)."]
        model_findings[dev] = found or ["(no contract rule violated within the bound)"]
        rows = vlib.read_ndjson(wf)[:50]          # a handful of witnesses per departure is enough
        for w in rows:
            w["nocompare"] = True                 # produced under a partial deviation set: judged on the contract only
        vlib.write_ndjson(wf, rows)
        witness_files.append(wf)
    ck.cov["model_deviation_findings"] = model_findings
    # 3. edges of the pinned model: transition cover + simulation
    e1 = os.path.join(ck.dir, f"edges_{tier}_bfs.ndjson")
    e2 = os.path.join(ck.dir, f"edges_{tier}_sim.ndjson")
    r1 = _ext.tlc_edges("MC_Jitter", cfg_text(t, t["maxlen"], PINNED, True, check=False), f"MC_Jitter_{PID}_{tier}_bfs", e1,
                        timeout=2400 if tier == "thorough" else 600)
    ck.add_tlc(r1, "G-edge/pinned")
    r2 = _ext.tlc_edges("MC_Jitter", cfg_text(t, t["simdepth"], PINNED, True, configs="MC_ConfigsSim", check=False),
                        f"MC_Jitter_{PID}_{tier}_sim", e2, simulate=t["sim"], depth=t["simdepth"] + 1,
                        timeout=2400 if tier == "thorough" else 600)
    ck.add_tlc(r2, "G-sim/pinned")
    allp = os.path.join(ck.dir, f"edges_{tier}.ndjson")
    n = _ext.dedup_edges([e1, e2] + witness_files, allp)
    for p in [e1, e2] + witness_files:
        os.remove(p)
    # 4. replay
    rows, summ = _ext.replay_sharded("jitter", allp, ck.dir, tier, shards=16, timeout=2400)
    with open(allp) as f:
        for i, line in enumerate(f):
            if i in (3, 1000):
                ck.cov["samples"].append(json.loads(line))
            if i > 1000:
                break
    os.remove(allp)
    first = _ext.rows_to_drift(ck, rows)
    ck.cov.update(traces_validated_against_impl=summ.get("edges", 0), evaluations=summ.get("edges", 0),
                  distinct_nontrivial=n, field_checks=summ.get("checks", 0),
                  skipped_timing_ambiguous=summ.get("skipped_timing_ambiguous", 0),
                  drift_signatures=summ.get("per_signature", {}),
                  exhaustive=bool(r1["finished"]) and summ.get("edges", 0) == n)
    ck.cov["rule"] = ("every (state, action) edge of the bounded pinned Jitter model (G-edge) and every out-edge along "
                      "random deep behaviours (G-sim) is replayed on a fresh JitterBuffer; observables compared with the "
                      "model (class replay) and the documented contract judged on the real output (class contract)")
    ck.assumptions += [
        "EXT: beyond the listed properties; findings are DRIFT only",
        "delays are classes {0, M = 6 ms reached by a measured sleep, never}; edges whose 'not yet elapsed' premise did "
        "not hold by measurement are skipped, not judged",
        "sequence alphabet = deltas relative to the last delivered number, base 65534 (wrap reached at once); audio 8 kHz",
    ]
    for (typ, field), r in first.items():
        if typ == "panic":
            ck.notes.append(f"PANIC in code under test: {str(r.get('observed'))[:200]}")
    ck.finish()


def replay(path):
    raise vlib.ToolError("EXT checks record no violation files")
