"""C14 - SRTP-mandatory modes never send or accept cleartext media.

SrtpGate.tla (gates of RtpTransport vs. key installation, bridging, close) is checked by TLC
(invariants NoClearEgress / NothingBeforeKeys / NoClearIngress) and is the generator of every
behaviour (G-bounded: all action sequences of length MaxLen in each srtp_required mode of the
two transports).  harness/src/bin/gate.rs replays each behaviour on real RtpTransports over
loopback sockets, classifies every datagram on the wire with an independent SRTP receiver
context and traces every delivery back to its inbound packet; each observation is judged
against what the specification allows in the pre-state."""
import concurrent.futures
import hashlib
import json
import os

import vlib

PID = "C14"
ALL_OPS = ["KX", "KY", "S", "SR", "SC", "BYE", "CL", "RcR", "RcC", "RvR", "RfR", "RvC", "RfC", "BX", "BY", "BV", "B0"]
GATES = ["send", "send_rtp", "send_rtcp", "sync_bye", "bridge", "recv_rtp", "recv_rtcp", "AuthFailOpen"]

# tier -> list of (label, constants, tlc mode)
# Reps: every inbound action of a behaviour is a burst of that many packets of its class ("the first n are dropped,
# later ones leak": rate-limited failure handling, counters, caches on an ingress gate)
CFG = {
    "quick": [
        ("all-modes/len4", dict(ReqX="{TRUE, FALSE}", ReqY="{TRUE, FALSE}", MaxLen=4, MaxGen=2, Ops=ALL_OPS), {}),
        ("all-modes/len3/bursts", dict(ReqX="{TRUE, FALSE}", ReqY="{TRUE, FALSE}", MaxLen=3, MaxGen=2, Ops=ALL_OPS,
                                        Reps="{4, 5, 101}"), {}),
    ],
    "thorough": [
        ("all-modes/len4", dict(ReqX="{TRUE, FALSE}", ReqY="{TRUE, FALSE}", MaxLen=4, MaxGen=2, Ops=ALL_OPS), {}),
        ("all-modes/len4/bursts", dict(ReqX="{TRUE, FALSE}", ReqY="{TRUE, FALSE}", MaxLen=4, MaxGen=2, Ops=ALL_OPS,
                                        Reps="{4, 5, 101}"), {}),
        ("required/len5", dict(ReqX="{TRUE}", ReqY="{TRUE, FALSE}", MaxLen=5, MaxGen=2, Ops=ALL_OPS), {}),
        ("all-modes/sim-len12", dict(ReqX="{TRUE, FALSE}", ReqY="{TRUE, FALSE}", MaxLen=12, MaxGen=3, Ops=ALL_OPS),
         # (in simulation mode TLC evaluates the emitting invariant on every candidate successor of the last state,
         #  so one generated trace yields up to |Ops| behaviours that share an 11-step prefix)
         dict(simulate=12000, depth=13)),
    ],
}


# concurrent model (three racing tasks): operations each task may start
# (label, constants, tlc mode). The G-edge run uses a VIEW (BFS-shortest schedule per abstract state), which assumes
# the implementation's state is a function of the model state; the G-sim run prints the out-edges of every state along
# random schedules with their real, unmerged prefix (longer programs: SRTP contexts, bridge stream tables, listener
# bindings, first-packet flags ... carry history) and is replayed the same way.
CONC = {
    "quick": [("race/1-1-2", dict(ReqX="{TRUE, FALSE}", ReqY="{TRUE, FALSE}", MaxGen=2, NSnd=1, NRcv=1, NCtl=2), {}),
              ("race/sim-3-3-4", dict(ReqX="{TRUE, FALSE}", ReqY="{TRUE, FALSE}", MaxGen=3, NSnd=3, NRcv=3, NCtl=4),
               dict(simulate=1500, depth=30))],
    "thorough": [("race/2-2-3", dict(ReqX="{TRUE, FALSE}", ReqY="{TRUE, FALSE}", MaxGen=2, NSnd=2, NRcv=2, NCtl=3), {}),
                 ("race/sim-4-4-5", dict(ReqX="{TRUE, FALSE}", ReqY="{TRUE, FALSE}", MaxGen=3, NSnd=4, NRcv=4, NCtl=5),
                  dict(simulate=20000, depth=44))],
}


def write_conc_cfg(path, c, emit, deviations=()):
    with open(path, "w") as f:
        f.write(f"""SPECIFICATION Spec
CONSTANTS
  ReqX = {c['ReqX']}
  ReqY = {c['ReqY']}
  MaxGen = {c['MaxGen']}
  NSnd = {c['NSnd']}
  NRcv = {c['NRcv']}
  NCtl = {c['NCtl']}
  SndOps = {{"S", "SR", "SC", "BYE"}}
  RcvOps = {{"RcR", "RcC", "RvR", "RfR", "RvC", "RfC"}}
  CtlOps = {{"KX", "KY", "BX", "BY", "B0", "CL"}}
  Deviations = {setstr(deviations)}
VIEW view
INVARIANTS TypeOK
PROPERTIES EgressOK IngressOK AllowedInside
ACTION_CONSTRAINT {'EmitEdge' if emit else 'NoEmit'}
CHECK_DEADLOCK FALSE
""")


# whole PeerConnections observed from the network (flag derivation from the transport mode, DTLS-SRTP / SDES key
# installation, real socket paths): G-edge over (mode, phase) plus G-sim sequences with their real history
PC_OPS = ["Push", "Raw", "InClearRtp", "InClearRtcp", "InForged", "InValid", "Keys", "Close",
          "InValidNack", "Gap", "KeyFrame", "Report"]
PC_OPS_FAST = [o for o in PC_OPS if o != "Report"]   # a sender report takes 3 s to appear
PC = {
    "quick": [("pc/edges", dict(MaxLen=6, Ops=PC_OPS), {}),
              ("pc/sim-len7", dict(MaxLen=7, Ops=PC_OPS_FAST), dict(simulate=3, depth=8))],
    "thorough": [("pc/edges", dict(MaxLen=6, Ops=PC_OPS), {}),
                 ("pc/sim-len9", dict(MaxLen=9, Ops=PC_OPS), dict(simulate=40, depth=10))],
}


def write_pc_cfg(path, c, emit, deviations=()):
    with open(path, "w") as f:
        f.write(f"""SPECIFICATION Spec
CONSTANTS
  Modes = {{"WebRtc", "Srtp", "Rtp"}}
  Roles = {{"offerer", "answerer"}}
  Cryptos = {{"ok", "none", "suite", "key"}}
  MaxLen = {c['MaxLen']}
  Ops = {setstr(c.get('Ops', PC_OPS))}
  Deviations = {setstr(deviations)}
VIEW view
INVARIANTS TypeOK
PROPERTIES EgressOK IngressOK AllowedInside
ACTION_CONSTRAINT {'EmitEdge' if emit else 'NoEmit'}
CHECK_DEADLOCK FALSE
""")


def setstr(xs):
    return "{" + ", ".join(json.dumps(x) for x in xs) + "}"


def write_cfg(path, c, emit, deviations=()):
    with open(path, "w") as f:
        f.write(f"""SPECIFICATION Spec
CONSTANTS
  ReqX = {c['ReqX']}
  ReqY = {c['ReqY']}
  MaxLen = {c['MaxLen']}
  MaxGen = {c['MaxGen']}
  Ops = {setstr(c['Ops'])}
  Reps = {c.get('Reps', '{1}')}
  Deviations = {setstr(deviations)}
INVARIANTS TypeOK NoClearEgress NothingBeforeKeys NoClearIngress AllowedSound {'Replay' if emit else 'NoReplay'}
PROPERTIES StepInside
CHECK_DEADLOCK FALSE
""")


def sig_of(d):
    """Structural classification of a divergence (never the property id alone)."""
    if d.get("level") == "pc":
        return {"sub": "gate", "mode": "pc", "transport_mode": d.get("mode"), "role": d.get("role"), "crypto": d.get("crypto"),
                "rule": d.get("rule"), "field": d.get("field"),
                "sink": d.get("sink"), "kind": d.get("kind"), "keyed": d.get("keyed")}
    return {"sub": "gate", "mode": d.get("mode", "seq"), "rule": d.get("rule"), "op": d.get("origin_op") or d.get("op"), "field": d.get("field"),
            "tr": d.get("tr"), "sink": d.get("sink"),
            "required": d.get("req", {}).get(d.get("tr") or "X"),
            "has_keys": (d.get("gen", {}).get(d.get("tr") or "X", 0) > 0)}


def run_pinned(cpu, name, args, timeout=600, env=None):
    """vlib.run_bin with the process pinned to one CPU."""
    import shutil
    import subprocess
    e = dict(os.environ)
    e["VERIF_SEED"] = str(vlib.seed())
    if env:
        e.update(env)
    cmd = [vlib.bin_path(name)] + list(args)
    if shutil.which("taskset"):
        cmd = ["taskset", "-c", str(cpu)] + cmd
    try:
        return subprocess.run(cmd, cwd=vlib.ROOT, env=e, stdout=subprocess.PIPE, stderr=subprocess.PIPE, text=True,
                              timeout=timeout)
    except subprocess.TimeoutExpired:
        raise vlib.ToolError(f"{name} timed out after {timeout}s")


def nshards(tier):
    return {"quick": 8, "one": 1}.get(tier, min(16, vlib.NCPU))


def replay_file(ck, beh_path, label, tier, extra_env=None, mode="replay", binary="gate"):
    """Run the behaviours (mode replay) / schedules (mode sched) through the real transports in N worker processes."""
    n = nshards(tier)
    tag = f"{label.replace('/', '_')}.{os.getpid()}"
    outs = [os.path.join(ck.dir, f"replay_{tag}.{i}.ndjson") for i in range(n)]

    cpus = sorted(os.sched_getaffinity(0))

    def one(i):
        # one CPU per worker: a transport's datagrams and the sentinel then share one loopback backlog queue, so
        # arrival order = send order (the verdict does not depend on it - datagrams are attributed by content -
        # but the exact per-step expectation (EXT) and the `late` counter do)
        if binary == "gatepc":   # several threads and real timers: not pinned
            return vlib.run_bin("gatepc", [mode, beh_path, outs[i], f"{i}/{n}"], timeout=3000, env=extra_env)
        return run_pinned(cpus[i % len(cpus)], binary, [mode, beh_path, outs[i], f"{i}/{n}"], timeout=3000,
                          env=extra_env)

    with concurrent.futures.ThreadPoolExecutor(max_workers=n) as ex:
        procs = list(ex.map(one, range(n)))
    summ = {"behaviours": 0, "steps": 0, "datagrams": 0, "deliveries": 0, "diverged": 0, "late": 0, "stale": 0,
            "unspecified": 0, "ref_agree": 0, "ref_disagree": 0, "foreign": 0, "protected": 0, "clear": 0,
            "inconclusive": 0, "retries": 0}
    sources = {}
    ref_seen = set()
    for i, p in enumerate(procs):
        if p.returncode != 0:
            raise vlib.ToolError(f"{binary} shard {i} failed rc={p.returncode}: {p.stderr[-2000:]}")
        got_summary = False
        for r in vlib.read_ndjson(outs[i]):
            if r.get("type") == "summary":
                got_summary = True
                for k in summ:
                    summ[k] += r.get(k, 0)
                for k, v in (r.get("sources") or {}).items():
                    sources[k] = sources.get(k, 0) + v
            elif r.get("type") == "divergence":
                if r.get("rule") == "EXT" and r.get("field") == "reference":
                    if r["op"] not in ref_seen and not any(d.get("field") == "reference" and d.get("op") == r["op"]
                                                            for d in ck.drift):
                        ref_seen.add(r["op"])
                        ck.drift.append({k: r.get(k) for k in ("field", "op", "expected", "observed")})
                elif r.get("rule") == "EXT":
                    ck.drift.append({k: r.get(k) for k in ("level", "mode", "field", "op", "ops", "step", "expected", "observed",
                                                           "req", "gen", "inbound") if r.get(k) is not None})
                else:
                    ck.divergence(sig_of(r), r)
        if not got_summary:
            raise vlib.ToolError(f"gate replayer shard {i} wrote no summary")
        os.remove(outs[i])
    summ["sources"] = sources
    return summ


def nontrivial(line_obj):
    """A behaviour is rule-relevant if some step attempts an emission on an SRTP-mandatory transport
    or feeds an inbound packet to an SRTP-mandatory X."""
    rx = line_obj["rx"]
    for st in line_obj["h"]:
        op = st[0]
        if op in ("S", "SR", "SC", "BYE", "CL") and st[3] < 2:
            return True
        if op.startswith("R") and (rx or st[3] < 2 or st[4] < 2):
            return True
    return False


TRACE_RULES = ["NothingBeforeKeys", "NoClearEgress", "NoClearIngress", "Explained"]
STRESS = {"quick": dict(programs=400, reps=3), "thorough": dict(programs=6000, reps=4)}


def write_trace_cfg(path, rules):
    with open(path, "w") as f:
        f.write(f"""SPECIFICATION TraceSpec
CONSTANTS
  Rules = {setstr(rules)}
CONSTRAINT Furthest
POSTCONDITION Accepted
CHECK_DEADLOCK FALSE
""")


def validate_trace(ck, trace_path, rules, tag):
    """TLC on Trace_SrtpGate; returns (result, index of the first event that cannot be consumed or None)."""
    cfg = os.path.join(vlib.SPEC, f"Trace_SrtpGate_{tag}_{os.getpid()}.gen.cfg")
    write_trace_cfg(cfg, rules)
    rej = os.path.join(ck.dir, f"rejected_{tag}.{os.getpid()}.ndjson")
    try:
        res = vlib.tlc("Trace_SrtpGate", os.path.basename(cfg), timeout=900, tags=("REJECTED",), sinks={"REJECTED": rej},
                       env={"TRACE": trace_path, "JAVA_TOOL_OPTIONS": "-Dtlc2.tool.queue.IStateQueue=StateDeque"},
                       heap="4g", tag=f"Trace_SrtpGate_{tag}", seed_arg=False)
    finally:
        try:
            os.remove(cfg)
        except OSError:
            pass
    at = None
    if os.path.exists(rej):
        rows = vlib.read_ndjson(rej)
        os.remove(rej)
        if rows:
            at = rows[0]["at"]
    if res.get("timeout"):
        raise vlib.ToolError("trace validation timed out")
    if at is None and (res["errors"] or res["rc"] != 0):
        vlib.log("\n".join(res["raw_tail"][-30:]))
        raise vlib.ToolError(f"trace validation failed to run: {res['errors'][:2]}")
    return res, at


def programs_of(edges_path, limit):
    """Project the racing model's simulated schedules onto the operations each task performs (the programs the
    free-running stress executes); TLC's own output, deduplicated, longest first."""
    seen = {}
    with open(edges_path) as f:
        for line in f:
            o = json.loads(line)
            prog = {"snd": [], "rcv": [], "ctl": []}
            for e in o["pre"] + [o["act"]]:
                if e[1]:
                    prog[e[0]].append(e[1])
            key = (o["rx"], o["ry"], tuple(prog["snd"]), tuple(prog["rcv"]), tuple(prog["ctl"]))
            seen[key] = dict(rx=o["rx"], ry=o["ry"], **prog)
    progs = sorted(seen.values(), key=lambda p: (-(len(p["snd"]) + len(p["rcv"]) + len(p["ctl"])), json.dumps(p, sort_keys=True)))
    return progs[:limit]


def stress_and_validate(ck, progs, tier, label):
    """Free-running races of the programs on the real transports, every run logged (H7 gate events + harness events)
    and the log validated by TLC against Trace_SrtpGate."""
    n = nshards(tier)
    pp = os.path.join(ck.dir, f"programs_{os.getpid()}.ndjson")
    vlib.write_ndjson(pp, progs)
    outs = [os.path.join(ck.dir, f"trace_{os.getpid()}.{i}.ndjson") for i in range(n)]

    def one(i):
        return vlib.run_bin("gate", ["stress", pp, outs[i], f"{i}/{n}"], timeout=3000,
                            env={"GATE_STRESS_REPS": str(STRESS[tier]["reps"])})

    with concurrent.futures.ThreadPoolExecutor(max_workers=n) as ex:
        procs = list(ex.map(one, range(n)))
    events = []
    runs = 0
    for i, p in enumerate(procs):
        if p.returncode != 0:
            raise vlib.ToolError(f"gate stress shard {i} failed rc={p.returncode}: {p.stderr[-1500:]}")
        events += vlib.read_ndjson(outs[i])
        os.remove(outs[i])
    os.remove(pp)
    # scenarios = maximal runs of events starting with a reset
    scen = []
    for e in events:
        if e["ev"] == "reset":
            scen.append([])
        scen[-1].append(e)
    runs = len(scen)
    for sc in scen:
        for e in sc:
            if e["ev"] == "panic":
                ck.divergence({"sub": "gate", "mode": "stress", "rule": "NoPanic", "what": e["what"][:80]},
                              {"level": "stress", "rule": "NoPanic", "scenario": sc})
    scen = [[e for e in sc if e["ev"] != "panic"] for sc in scen]
    validated_events = 0
    chunk_events = 25000
    i = 0
    chunk_no = 0
    while i < len(scen):
        chunk, cnt = [], 0
        while i < len(scen) and (cnt == 0 or cnt + len(scen[i]) <= chunk_events):
            chunk.append(scen[i])
            cnt += len(scen[i])
            i += 1
        chunk_no += 1
        for _attempt in range(6):
            tp = os.path.join(ck.dir, f"trace_chunk_{os.getpid()}.ndjson")
            vlib.write_ndjson(tp, [e for sc in chunk for e in sc])
            res, at = validate_trace(ck, tp, TRACE_RULES, "all")
            ck.add_tlc(res, f"{label}: trace validation chunk {chunk_no}")
            os.remove(tp)
            if at is None:
                validated_events += sum(len(sc) for sc in chunk)
                break
            # locate the scenario and the rule: the same scenario alone, one rule at a time
            pos = 0
            bad = None
            for k, sc in enumerate(chunk):
                if pos < at <= pos + len(sc):
                    bad = k
                    break
                pos += len(sc)
            if bad is None:
                raise vlib.ToolError(f"rejected position {at} outside the chunk")
            sc = chunk[bad]
            ev = sc[at - pos - 1]
            broken = []
            for r in TRACE_RULES:
                tp1 = os.path.join(ck.dir, f"trace_one_{os.getpid()}.ndjson")
                vlib.write_ndjson(tp1, sc)
                _, at1 = validate_trace(ck, tp1, [r], "one")
                os.remove(tp1)
                if at1 is not None:
                    broken.append(r)
            rule = broken[0] if broken else "TraceShape"
            rec = {"level": "stress", "rule": rule, "rules_broken": broken, "event": ev, "scenario": sc}
            if rule in ("Explained", "TraceShape"):
                ck.drift.append({"level": "stress", "field": rule, "event": ev})
            else:
                ck.divergence({"sub": "gate", "mode": "stress", "rule": rule, "ev": ev.get("ev"), "op": ev.get("op"),
                               "out": ev.get("out"), "required": ev.get("req"), "has_session": ev.get("has"),
                               "cls": ev.get("cls"), "sink": ev.get("sink")}, rec)
            validated_events += sum(len(x) for x in chunk[:bad])
            chunk = chunk[bad + 1:]
            if not chunk:
                break
    return runs, len(events), validated_events


def run(tier):
    ck = vlib.Check(PID, tier)
    vlib.build_harness(["gate", "gatepc"])
    total = 0
    nontriv = set()
    exhaustive = True
    for label, consts, mode in CFG[tier]:
        cfg = os.path.join(vlib.SPEC, f"MC_SrtpGate_{tier}_{os.getpid()}.gen.cfg")
        write_cfg(cfg, consts, emit=True)
        beh = os.path.join(ck.dir, f"behaviours_{label.replace('/', '_')}.{os.getpid()}.ndjson")
        try:
            res = vlib.tlc("MC_SrtpGate", os.path.basename(cfg), tags=("REPLAY",), sinks={"REPLAY": beh},
                           timeout=3000 if tier == "thorough" else 900, heap="8g", tag=f"MC_SrtpGate_{tier}", **mode)
        finally:
            try:
                os.remove(cfg)
            except OSError:
                pass
        vlib.tlc_ok(res, label)
        ck.add_tlc(res, label)
        summ = replay_file(ck, beh, label, tier)
        total += summ["behaviours"]
        ck.cov["evaluations"] += summ["steps"] + summ["datagrams"] + summ["deliveries"]
        with open(beh) as f:
            for i, line in enumerate(f):
                o = json.loads(line)
                if nontrivial(o):
                    nontriv.add(hashlib.blake2b(line.encode(), digest_size=8).digest())
                if (i % 50021 == 7 or (o["rx"] and i % 30011 == 13)) and len(ck.cov["samples"]) < 6:
                    ck.cov["samples"].append(f"required X={o['rx']} Y={o['ry']} burst={o.get('rep', 1)}: " + " ".join(
                        f"{st[0]}[wire={st[1] or '-'} sinks={st[2] or '-'}]" for st in o["h"]))
        if not mode and not res["finished"]:
            exhaustive = False   # (simulation runs are extra; the exhaustive claim is about the bounded runs)
        if summ["behaviours"] != res["counts"]["REPLAY"]:
            raise vlib.ToolError(f"replayed {summ['behaviours']} of {res['counts']['REPLAY']} behaviours")
        ck.notes.append(f"{label}: {res['counts']['REPLAY']} behaviours, {summ['steps']} steps, "
                        f"{summ['datagrams']} datagrams classified, {summ['deliveries']} deliveries traced, "
                        f"{summ['late']} datagrams arrived after their step's sentinel, {summ['stale']} stale, {summ['foreign']} foreign (other senders) ignored; "
                        f"webrtc-srtp second opinion on protected datagrams: {summ['ref_agree']} agree, "
                        f"{summ['ref_disagree']} disagree")
        os.remove(beh)
    # ---- the same operations racing from three tasks: every (state, task step) edge of the concurrent model is
    # executed on the real transports under the baton scheduler (exact interleaving at the H7 sched points)
    for label, consts, mode in CONC[tier]:
        cfg = os.path.join(vlib.SPEC, f"MC_SrtpGateConc_{tier}_{os.getpid()}.gen.cfg")
        write_conc_cfg(cfg, consts, emit=True)
        edges = os.path.join(ck.dir, f"edges_{label.replace('/', '_')}.{os.getpid()}.ndjson")
        try:
            res = vlib.tlc("MC_SrtpGateConc", os.path.basename(cfg), tags=("EDGE",), sinks={"EDGE": edges},
                           timeout=3000 if tier == "thorough" else 900, heap="8g", tag=f"MC_SrtpGateConc_{tier}", **mode)
        finally:
            try:
                os.remove(cfg)
            except OSError:
                pass
        vlib.tlc_ok(res, label)
        ck.add_tlc(res, label)
        summ = replay_file(ck, edges, label, tier, mode="sched")
        if summ["behaviours"] != res["counts"]["EDGE"]:
            raise vlib.ToolError(f"executed {summ['behaviours']} of {res['counts']['EDGE']} schedules")
        if not mode and not res["finished"]:
            exhaustive = False
        total += summ["behaviours"]
        ck.cov["evaluations"] += summ["steps"] + summ["datagrams"] + summ["deliveries"]
        with open(edges) as f:
            for i, line in enumerate(f):
                o = json.loads(line)
                # rule-relevant: the step emits / delivers, or an SRTP-mandatory transport is involved in it
                if o["exp"][0] or o["exp"][1] or o["exp"][2] < 2 or o["exp"][3] < 2:
                    nontriv.add(hashlib.blake2b(line.encode(), digest_size=8).digest())
                if i % 9973 == 11 and len(ck.cov["samples"]) < 10:
                    ck.cov["samples"].append(f"race, required X={o['rx']} Y={o['ry']}: schedule " + " ".join(
                        f"{e[0]}:{e[1] or '.'}>{e[2]}" for e in o["pre"] + [o["act"]]) +
                        f" expects wire={o['exp'][0] or '-'} sinks={o['exp'][1] or '-'}")
        if mode:
            progs = programs_of(edges, STRESS[tier]["programs"])
            runs, nev, nval = stress_and_validate(ck, progs, tier, label)
            total += runs
            ck.cov["evaluations"] += nev
            ck.notes.append(f"{label}: {len(progs)} programs of the simulated schedules raced freely ({runs} runs, "
                            f"{nev} logged events: H7 gate events, key installations, wire datagrams, deliveries); "
                            f"{nval} events accepted by Trace_SrtpGate")
        ck.notes.append(f"{label}: {res['counts']['EDGE']} (state, task step) edges executed as exact schedules, "
                        f"{summ['steps']} steps, {summ['datagrams']} datagrams classified, {summ['deliveries']} deliveries "
                        f"traced, {summ['unspecified']} schedules cut at a step whose outcome the model leaves unspecified")
        os.remove(edges)
    # ---- whole PeerConnections (WebRtc pair through a DTLS-holding relay, SDES and plain RTP against a raw socket)
    for label, consts, mode in PC[tier]:
        cfg = os.path.join(vlib.SPEC, f"MC_SrtpGatePc_{tier}_{os.getpid()}.gen.cfg")
        write_pc_cfg(cfg, consts, emit=True)
        edges = os.path.join(ck.dir, f"pc_{label.replace('/', '_')}.{os.getpid()}.ndjson")
        try:
            res = vlib.tlc("MC_SrtpGatePc", os.path.basename(cfg), tags=("EDGE",), sinks={"EDGE": edges}, timeout=600,
                           heap="2g", tag=f"MC_SrtpGatePc_{tier}", **mode)
        finally:
            try:
                os.remove(cfg)
            except OSError:
                pass
        vlib.tlc_ok(res, label)
        ck.add_tlc(res, label)
        summ = replay_file(ck, edges, label, tier, mode="run", binary="gatepc")
        if summ["behaviours"] != res["counts"]["EDGE"]:
            raise vlib.ToolError(f"executed {summ['behaviours']} of {res['counts']['EDGE']} connection scenarios")
        if not mode and not res["finished"]:
            exhaustive = False
        total += summ["behaviours"]
        ck.cov["evaluations"] += summ["steps"] + summ["datagrams"] + summ["deliveries"]
        with open(edges) as f:
            for i, line in enumerate(f):
                o = json.loads(line)
                if o["mode"] != "Rtp":
                    nontriv.add(hashlib.blake2b(line.encode(), digest_size=8).digest())
                if i % 17 == 3 and len(ck.cov["samples"]) < 13:
                    ck.cov["samples"].append(f"connection, mode {o['mode']} ({o.get('role')}, a=crypto {o.get('crypto')}): " +
                                             " ".join(o["pre"] + [o["act"]]) +
                                             f" expects wire={o['exp'][0] or '-'} delivered={o['exp'][1]}")
        ck.notes.append(f"{label}: {res['counts']['EDGE']} connection scenarios, {summ['steps']} steps, {summ['datagrams']} media "
                        f"datagrams of the observed endpoint classified ({summ['protected']} protected, {summ['clear']} clear - "
                        f"the clear ones in plain-RTP control scenarios), {summ['deliveries']} deliveries traced, "
                        f"egress sources seen: {summ['sources']}; "
                        f"{summ['retries']} set-ups repeated because the connection did not come up, "
                        f"{summ['inconclusive']} scenarios inconclusive")
        os.remove(edges)
    ck.cov["traces_validated_against_impl"] = total
    ck.cov["distinct_nontrivial"] = len(nontriv)
    ck.cov["exhaustive"] = exhaustive
    ck.cov["rule"] = ("every action sequence of the stated length over {install keys X/Y, send raw, send_rtp, send_rtcp, "
                      "sync BYE, close, receive clear/valid/forged RTP/RTCP, bridge to self / to Y, clear bridge} in every "
                      "srtp_required mode of X and Y is executed on fresh RtpTransports; non-trivial = some step attempts an "
                      "emission on an SRTP-mandatory transport or feeds a packet to an SRTP-mandatory receiver")
    ck.assumptions += [
        "bounded: sequence length and key generations as listed in tlc_runs; two transports (X driven, Y bridge target)",
        "sequential replay: one operation at a time; racing: three tasks (sender, receiver, control) interleaved at the "
        "granularity of the code's critical sections (H7 sched points), operations per task as listed in tlc_runs",
        "datagram class decided by an independent receiver context of rustrtc's own SRTP implementation holding the "
        "installed sessions' keys, plus a known-plaintext scan; cipher/HMAC arithmetic itself is C04's subject",
        "loopback UDP keeps order between a transport's datagrams and the sentinel sent through the same socket",
        "profiles AES_CM_128_HMAC_SHA1_80/32 and AEAD_AES_128_GCM (one per behaviour, chosen from VERIF_SEED)",
    ]
    ck.finish()


def replay(path):
    """Re-run one recorded violation."""
    ck = vlib.Check(PID, "quick")
    vlib.build_harness(["gate"])
    with open(path) as f:
        rec = json.load(f)
    case = rec["record"]["case"]
    if rec["record"].get("level") == "pc":
        vlib.build_harness(["gatepc"])
        bp = os.path.join(ck.dir, f"replay_one.{os.getpid()}.ndjson")
        vlib.write_ndjson(bp, [rec["record"]["case"]])
        summ = replay_file(ck, bp, "one", "one", mode="run", binary="gatepc")
        os.remove(bp)
        ck.cov.update(states=1, transitions=1, traces_validated_against_impl=summ["behaviours"], samples=[rec["record"]["case"]])
        ck.finish()
    mode = "sched" if rec["record"].get("mode") == "sched" else "replay"
    prof = {"Aes128Sha1_80": 0, "Aes128Sha1_32": 1, "AeadAes128Gcm": 2}.get(rec["record"].get("profile"))
    if prof is not None and mode == "replay":
        case = dict(case, profile=prof)
    bp = os.path.join(ck.dir, f"replay_one.{os.getpid()}.ndjson")
    # the behaviour's position in its file seeds the concretisation: keep it
    idx = int(rec["record"].get("behaviour", 0))
    with open(bp, "w") as f:
        f.write("\n" * idx)
        f.write(json.dumps(case) + "\n")
    summ = replay_file(ck, bp, "one", "one", mode=mode)
    os.remove(bp)
    ck.cov.update(states=1, transitions=1, traces_validated_against_impl=summ["behaviours"], samples=[case])
    ck.finish()


def selftest():
    """Negative controls on the model: each weakened gate copy (a named deviation) must violate the
    invariant it guards; with no deviation the design check passes (run())."""
    ok = True
    expect = {"send": "NoClearEgress", "send_rtp": "NoClearEgress", "send_rtcp": "NoClearEgress",
              "sync_bye": "NoClearEgress", "bridge": "NoClearEgress", "recv_rtp": "NoClearIngress",
              "recv_rtcp": "NoClearIngress", "AuthFailOpen": "NoClearIngress"}
    for dev in GATES:
        cfg = os.path.join(vlib.SPEC, f"MC_SrtpGate_selftest_{os.getpid()}.gen.cfg")
        write_cfg(cfg, CFG["quick"][0][1], emit=False, deviations=[dev])
        res = vlib.tlc("MC_SrtpGate", os.path.basename(cfg), timeout=600, workers=4, tag="MC_SrtpGate_selftest")
        os.remove(cfg)
        hit = any(expect[dev] in e or "NothingBeforeKeys" in e or "StepInside" in e for e in res["errors"])
        print(f"selftest: deviation {dev}: model violates {expect[dev]}: {hit} ({res['errors'][:1]})")
        ok = ok and hit
    for dev, prop in (("send_rtp", "EgressOK"), ("sync_bye", "EgressOK"), ("bridge", "EgressOK"), ("recv_rtp", "IngressOK"),
                      ("recv_rtcp", "IngressOK"), ("AuthFailOpen", "IngressOK")):
        cfg = os.path.join(vlib.SPEC, f"MC_SrtpGateConc_selftest_{os.getpid()}.gen.cfg")
        write_conc_cfg(cfg, CONC["quick"][0][1], emit=False, deviations=[dev])  # (bounded run, no emission)
        res = vlib.tlc("MC_SrtpGateConc", os.path.basename(cfg), timeout=600, workers=4, tag="MC_SrtpGateConc_selftest")
        os.remove(cfg)
        hit = any(prop in e or "AllowedInside" in e for e in res["errors"])
        print(f"selftest: racing model, deviation {dev}: violates {prop}: {hit} ({res['errors'][:1]})")
        ok = ok and hit
    cfg = os.path.join(vlib.SPEC, f"MC_SrtpGatePc_selftest_{os.getpid()}.gen.cfg")
    write_pc_cfg(cfg, PC["quick"][0][1], emit=False, deviations=["FlagFromMode"])
    res = vlib.tlc("MC_SrtpGatePc", os.path.basename(cfg), timeout=300, workers=2, tag="MC_SrtpGatePc_selftest")
    os.remove(cfg)
    hit = any("EgressOK" in e or "IngressOK" in e or "AllowedInside" in e for e in res["errors"])
    print(f"selftest: connection model, deviation FlagFromMode: violates a C14 action property: {hit} ({res['errors'][:1]})")
    ok = ok and hit
    # binding side: a corrupted expectation must be reported by the replayer (the comparison is live), and the
    # uncorrupted behaviour must pass
    vlib.build_harness(["gate"])
    d = vlib.outdir(PID)
    good = {"rx": False, "ry": False, "h": [["SR", "Xc", "", 2, 2, "E", "E", 0, 1], ["KX", "", "", 2, 2, "E", "E", 0, 1],
                                              ["SC", "Xp", "", 2, 2, "E", "E", 0, 1], ["RvR", "", "ol", 2, 2, "E", "E", 1, 1]]}
    bad_wire = json.loads(json.dumps(good))
    bad_wire["h"][0][3] = 1          # pretend only protected datagrams may leave at step 1
    bad_sink = json.loads(json.dumps(good))
    bad_sink["h"][3][7] = 0          # pretend the valid packet of step 4 may not be delivered
    for name, case, want in (("good", good, 0), ("corrupt-wire-allowance", bad_wire, 1), ("corrupt-delivery-allowance", bad_sink, 1)):
        bp = os.path.join(d, f"selftest_{name}.{os.getpid()}.ndjson")
        op = os.path.join(d, f"selftest_{name}.{os.getpid()}.out.ndjson")
        vlib.write_ndjson(bp, [case])
        p = vlib.run_bin("gate", ["replay", bp, op])
        rows = vlib.read_ndjson(op) if p.returncode == 0 else []
        n = sum(1 for r in rows if r.get("type") == "divergence" and r.get("rule") != "EXT")
        print(f"selftest: replayer on {name}: {n} divergence(s) (expected {'some' if want else 'none'})")
        ok = ok and p.returncode == 0 and ((n > 0) == bool(want))
        os.remove(bp)
        if os.path.exists(op):
            os.remove(op)
    # trace side: a recorded stress log is accepted; with one hook event dropped, or one field corrupted, it is rejected
    # under the rule that speaks about it
    ckt = vlib.Check(PID + "-selftest", "quick")
    prog = [{"rx": True, "ry": False, "snd": ["SR", "SC", "BYE", "S"], "rcv": ["RcR", "RvR", "RfC", "RvC"],
             "ctl": ["KX", "BY", "KY", "CL"]}]
    pp = os.path.join(d, f"selftest_prog.{os.getpid()}.ndjson")
    tp = os.path.join(d, f"selftest_trace.{os.getpid()}.ndjson")
    vlib.write_ndjson(pp, prog)
    p = vlib.run_bin("gate", ["stress", pp, tp], env={"GATE_STRESS_REPS": "2"})
    os.remove(pp)
    ev = vlib.read_ndjson(tp) if p.returncode == 0 else []
    gi = next((i for i, e in enumerate(ev) if e["ev"] == "gate" and e["out"] == "protected"), None)
    ai = next((i for i, e in enumerate(ev) if e["ev"] == "gate" and e["out"] == "accepted"), None)
    variants = [("recorded", ev, None)]
    if gi is not None:
        variants.append(("hook-event-dropped", ev[:gi] + ev[gi + 1:], "Explained"))
        variants.append(("outcome-corrupted-to-clear", ev[:gi] + [dict(ev[gi], out="clear")] + ev[gi + 1:], "NoClearEgress"))
        variants.append(("session-seen-before-installation", [e for e in ev if e["ev"] != "keys_begin"], "NothingBeforeKeys"))
    if ai is not None:
        variants.append(("accepted-without-session", ev[:ai] + [dict(ev[ai], has=False)] + ev[ai + 1:], "NoClearIngress"))
    for name, evs, rule in variants:
        vlib.write_ndjson(tp, evs)
        _, at = validate_trace(ckt, tp, TRACE_RULES, "selftest")
        verdict = "accepted" if at is None else f"rejected at event {at}"
        good = (at is None) == (rule is None)
        if rule is not None and at is not None:
            _, at1 = validate_trace(ckt, tp, [rule], "selftest1")
            good = good and at1 is not None
        print(f"selftest: trace {name}: {verdict} (expected {'accepted' if rule is None else 'rejected by ' + rule}): {good}")
        ok = ok and good and len(ev) > 10
    if os.path.exists(tp):
        os.remove(tp)
    raise SystemExit(0 if ok else 2)
