"""C01 - reliable ordered data channels deliver every message exactly once, in order.

SctpAssoc.tla is model-checked (monotone-set network = unbounded loss / duplication / delay / reordering
of every datagram incl. set-up and acknowledgement packets; budgeted fifo network for liveness); the
budgeted model also generates the fault schedules, which are executed on two real endpoints behind the
decrypting proxy; every recorded run is replayed by TLC through Trace_SctpAssoc with Props = {"C01"}.
"""
import json
import os
import random

import sctp_common as sc
import vlib

PID = "C01"
WRAP_A = 0xFFFFFFFD
WRAP_B = 0xFFFFFFFE


def design_checks(ck, tier):
    """the contract holds on the model (Deviations = {})"""
    runs = [("set/A12", dict(mode="set", msgs="MsgsA12")),
            ("set/both", dict(mode="set", msgs="MsgsBoth", init_a="{14}", init_b="{0, 14}"))]
    if tier == "thorough":
        runs += [("set/A123", dict(mode="set", msgs="MsgsA123", init_a="{14}", init_b="{15}", win=3)),
                 ("set/twoch", dict(mode="set", chans="Chans2", msgs="MsgsTwoCh", init_a="{14}", init_b="{0}"))]
    for label, kw in runs:
        res = sc.tlc_mc(ck, label.replace("/", "_"), timeout=1800 if tier == "thorough" else 900, **kw)
        vlib.tlc_ok(res, label)
        ck.add_tlc(res, label)


def generate(ck, tier):
    """fault schedules = distinct fault histories of the budgeted models (liveness is checked on the same models);
    the independent generator runs go in parallel threads (each is one or two TLC processes)"""
    import threading
    d, pid = ck.dir, os.getpid()
    box, errs = {}, []

    def job(name, fn):
        def run():
            try:
                box[name] = fn()
            except Exception as e:
                errs.append(e)
        t = threading.Thread(target=run)
        t.start()
        return t

    def g_singles():
        p1 = os.path.join(d, f"sched_b1_{tier}_{pid}.ndjson")
        res = sc.tlc_mc(ck, "fifo_b1", mode="fifo", budget=1, fair=True, msgs="MsgsA12", init_a="{14}", init_b="{0}",
                        sched_sink=p1, timeout=600)
        vlib.tlc_ok(res, "fifo budget 1")
        ck.add_tlc(res, "fifo/budget1 (liveness + single faults)")
        return sc.schedules_from(p1)

    def g_pairs():
        p2 = os.path.join(d, f"sched_b2_{tier}_{pid}.ndjson")
        # pairs: the one-message workload keeps the quick generator small; thorough uses the full workload
        res = sc.tlc_mc(ck, "fifo_b2", mode="fifo", budget=2, fair=(tier == "thorough"),
                        msgs="MsgsA12" if tier == "thorough" else "MsgsA2", init_a="{14}", init_b="{0}",
                        sched_sink=p2, timeout=2400 if tier == "thorough" else 600)
        vlib.tlc_ok(res, "fifo budget 2")
        ck.add_tlc(res, "fifo/budget2 (pairs)")
        return [s for s in sc.schedules_from(p2) if len(s) == 2], res["finished"]

    def g_mixed():
        # a partially reliable channel next to the reliable one (abandonment, FORWARD-TSN): liveness of the
        # reliable channel + single faults, FORWARD-TSN included
        p3 = os.path.join(d, f"sched_pr_{tier}_{pid}.ndjson")
        sc.tlc_mc_split(ck, "fifo_pr", "fifo/rel+pr budget1", p3, mode="fifo", budget=1, chans="ChansPR", msgs="MsgsTwoCh3",
                        init_a="{14}", init_b="{0}", win=3, timeout=900)
        mixed = sc.schedules_from(p3)
        if tier == "thorough":
            p4 = os.path.join(d, f"sched_pr2_{tier}_{pid}.ndjson")
            res4 = sc.tlc_mc(ck, "fifo_pr2", mode="fifo", budget=2, fair=True, chans="ChansPR", msgs="MsgsPR2",
                             init_a="{14}", init_b="{0}", win=3, sched_sink=p4, timeout=2400)
            vlib.tlc_ok(res4, "fifo rel+pr budget 2")
            ck.add_tlc(res4, "fifo/rel+pr budget2 (liveness + pairs)")
            mixed += [s for s in sc.schedules_from(p4) if len(s) == 2]
        return mixed

    def g_window():
        return sc.gen_window_schedules(ck, tier)

    def g_burst():
        # a burst of one-chunk messages with a T3 timer that marks only RtxBurst chunks per expiry (the rest is
        # re-timed): single faults incl. an outage of the path that swallows the burst
        p6 = os.path.join(d, f"sched_burst_{tier}_{pid}.ndjson")
        sc.tlc_mc_split(ck, "fifo_burst", "fifo/burst of 3 one-chunk messages, RtxBurst 1", p6, mode="fifo", budget=1,
                        msgs="MsgsA111", init_a="{14}", init_b="{0}", win=3, rtx_burst=1, max_rtx=4, timeout=600)
        return sc.schedules_from(p6)

    def g_triples():
        if tier != "thorough":
            return []
        # three faults: random behaviours of the budget-3 model (G-sim), invariants checked along the way
        p5 = os.path.join(d, f"sched_b3_{tier}_{pid}.ndjson")
        r5 = sc.tlc_mc(ck, "fifo_b3_sim", mode="fifo", budget=3, fair=False, msgs="MsgsA12", init_a="{14}", init_b="{0}",
                       properties=[], sched_sink=p5, simulate=4000, depth=70, timeout=1500)
        vlib.tlc_ok(r5, "fifo budget 3 simulation")
        ck.add_tlc(r5, "fifo/budget3 simulation (4000 behaviours, depth 70)")
        return [f for f in sc.schedules_from(p5) if len(f) == 3]

    def g_coll():
        return sc.gen_collision_schedules(ck, tier)

    threads = [job("coll", g_coll), job("singles", g_singles), job("pairs", g_pairs), job("mixed", g_mixed), job("window", g_window),
               job("burst", g_burst), job("triples", g_triples)]
    for t in threads:
        t.join()
    if errs:
        raise errs[0]
    global WINDOW_SCHEDS, TRIPLES, BURST_SCHEDS, COLLISION_SCHEDS
    WINDOW_SCHEDS, BURST_SCHEDS, TRIPLES, COLLISION_SCHEDS = box["window"], box["burst"], box["triples"], box["coll"]
    pairs, finished = box["pairs"]
    return box["singles"], pairs, box["mixed"], finished


WINDOW_SCHEDS = []
TRIPLES = []
BURST_SCHEDS = []
COLLISION_SCHEDS = []
TSN_SPACES = [None, {"init_tsn_a": WRAP_A, "init_tsn_b": 7000}, {"init_tsn_a": 1000, "init_tsn_b": 500000},
              {"init_tsn_a": 500000, "init_tsn_b": 1000}, {"init_tsn_a": WRAP_A, "init_tsn_b": WRAP_B}]


def mixed_workload(rng, k):
    """MsgsTwoCh3 of the model: a 2-fragment and a 1-fragment message on the partially reliable channel 2
    around a message on the reliable ordered channel 1, then more reliable traffic and the phase-2 probes"""
    chans = [sc.chan(1), sc.chan(2, mr=k % 2)]
    m = [{"from": "A", "sid": 2, "len": sc.size_for(2, rng)}, {"from": "A", "sid": 1, "len": sc.size_for(1, rng)},
         {"from": "A", "sid": 2, "len": sc.size_for(1, rng)}, {"from": "A", "sid": 1, "len": sc.size_for(2, rng)},
         {"from": "B", "sid": 1, "len": sc.size_for(1, rng), "task": 1},
         {"from": "A", "sid": 1, "len": sc.size_for(1, rng), "phase": 2},
         {"from": "B", "sid": 1, "len": sc.size_for(1, rng), "phase": 2}]
    return chans, m


def window_workload(rng):
    """a steady flow (40 messages of 1-3 fragments, about 90 KB, more than the congestion window) so that
    SACKs with gap blocks, delayed / reordered SACKs and retransmissions meet live TSNs"""
    m = [{"from": "A", "sid": 1, "len": sc.size_for(rng.choice([1, 2, 3]), rng)} for _ in range(40)]
    m += [{"from": "B", "sid": 1, "len": sc.size_for(2, rng), "task": 1}]
    m += [{"from": "A", "sid": 1, "len": sc.size_for(1, rng), "phase": 2},
          {"from": "B", "sid": 1, "len": sc.size_for(1, rng), "phase": 2}]
    return m


def stretch(faults, st, ss):
    """concretise model ordinals for a workload with more packets than the model's"""
    out = []
    for f in faults:
        g = dict(f)
        if g["k"] == "SACK":
            g["o"] = 1 + (g["o"] - 1) * ss
        if g["k"] == "DATA" and "t" in g:
            g["t"] = g["t"] * st + (st - 1)
        if g.get("ak") == "SACK" and g.get("at", 0) > 0:
            g["at"] = g["at"] * st          # acknowledges the (stretched) chunks below it
        elif g.get("ak") == "SACK" and g["ao"] > 0:
            g["ao"] = 1 + g["ao"] * ss
        if g.get("ak") == "GSACK" and g["ao"] > 0:
            g["ao"] = g["ao"] + ss
        if g.get("ak") == "DATA" and "at" in g:
            g["at"] = g["at"] * st + (st - 1)
        out.append(g)
    return out


def build_scenarios(singles, pairs, mixed, tier):
    rng = random.Random(vlib.seed())
    scen = [sc.scenario("clean", [], [sc.chan(1)], sc.basic_workload(rng), idle_ms=60)]
    scen.append(sc.scenario("clean-wrap", [], [sc.chan(1)], sc.basic_workload(rng, both=True), idle_ms=60,
                            cfg={"init_tsn_a": WRAP_A, "init_tsn_b": WRAP_B}))
    for i, f in enumerate(singles):
        scen.append(sc.scenario(f"s{i:03d}", f, [sc.chan(1)], sc.basic_workload(rng)))
        scen.append(sc.scenario(f"s{i:03d}w", f, [sc.chan(1)], sc.basic_workload(rng, both=True),
                                cfg={"init_tsn_a": WRAP_A, "init_tsn_b": WRAP_B}))
    chosen = pairs if tier == "thorough" else sc.sample(pairs, 160, vlib.seed())
    for i, f in enumerate(chosen):
        wrap = (i % 3 == 0)
        scen.append(sc.scenario(f"p{i:04d}", f, [sc.chan(1)], sc.basic_workload(rng, both=(i % 2 == 1)),
                                cfg={"init_tsn_a": WRAP_A, "init_tsn_b": WRAP_B} if wrap else None))
    # a DATA fault combined with a SACK fault (loss behind a delayed / duplicated / reordered SACK) on the
    # windowed workload
    cross = [p for p in pairs if {(f["dir"], f["k"].replace("GSACK", "SACK")) for f in p} == {("A", "DATA"), ("B", "SACK")}]
    # most weight on a delayed SACK (held back or duplicated late, i.e. arriving after a newer one)
    late = [p for p in cross if any(f["k"] in ("SACK", "GSACK") and f["kind"] in ("hold", "duplate") for f in p)]
    rest = [p for p in cross if p not in late]
    chosen_x = cross if tier == "thorough" else (sc.sample(late, 160, vlib.seed() + 9) + sc.sample(rest, 40, vlib.seed() + 10))
    for i, f in enumerate(chosen_x):
        scen.append(sc.scenario(f"x{i:04d}", stretch(f, rng.choice([1, 2, 3, 4]), rng.choice([1, 2, 3])), [sc.chan(1)],
                                window_workload(rng), cfg={"init_tsn_a": WRAP_A - 5} if i % 4 == 0 else None))
    for i, f in enumerate(sc.sample(TRIPLES, 800, vlib.seed() + 40)):
        scen.append(sc.scenario(f"t{i:04d}", f, [sc.chan(1)], sc.basic_workload(rng, both=(i % 2 == 1)),
                                cfg={"init_tsn_a": WRAP_A, "init_tsn_b": WRAP_B} if i % 3 == 0 else None))
    if tier == "thorough":
        # beyond the property's fault alphabet (EXT, reported as drift): the peer's SCTP stack restarts on the same
        # DTLS association - a fresh INIT with a different tag after the fault phase
        s = sc.scenario("ext-restart", [], [sc.chan(1)], sc.basic_workload(rng, both=True), deadline_ms=2000)
        s["restart_init_from"] = "A"
        s["ext_only"] = "peer restart (new INIT with a different initiate tag on an established association)"
        scen.append(s)
    # bursts of 7..12 one-chunk messages and then silence (no traffic that could trigger fast retransmit): the
    # model's 3 chunks with RtxBurst 1 stand for k*4 + r chunks with the code's burst of 4
    for i, f in enumerate(BURST_SCHEDS):
        n = 7 + (i % 6)
        g = []
        for x in f:
            y = dict(x)
            if y["k"] == "DATA" and "t" in y:
                y["t"] = [0, 1, n - 1][min(y["t"], 2)] if y["kind"] != "outage" else [0, 1, 2][min(y["t"], 2)]
            if y.get("ak") == "DATA" and "at" in y:
                y["at"] = [0, 1, n - 1][min(y["at"], 2)]
            g.append(y)
        msgs = [{"from": "A", "sid": 1, "len": rng.choice([900, 1100, 1172])} for _ in range(n)]
        msgs += [{"from": "A", "sid": 1, "len": 5, "phase": 2}, {"from": "B", "sid": 1, "len": 5, "phase": 2}]
        scen.append(sc.scenario(f"u{i:03d}", g, [sc.chan(1)], msgs))
    # INIT collision (both ends send INIT)
    scen += sc.collision_scenarios(COLLISION_SCHEDS, rng, limit=12 if tier == "quick" else 200, seed=vlib.seed() + 62, idle_ms=0)
    # a closing / closed receive window with delayed or late-duplicated SACKs (stale zero-window SACK)
    scen += sc.window_scenarios(WINDOW_SCHEDS, rng, limit=40 if tier == "quick" else 400, seed=vlib.seed() + 31)
    for i, f in enumerate([[]] + mixed):
        chans, msgs = mixed_workload(rng, i)
        scen.append(sc.scenario(f"m{i:03d}", f, chans, msgs, cfg=TSN_SPACES[i % len(TSN_SPACES)]))
    return scen, len(chosen)


def run(tier):
    ck = vlib.Check(PID, tier)
    vlib.build_harness(["sctp"])
    design_checks(ck, tier)
    singles, pairs, mixed, gen_finished = generate(ck, tier)
    scen, npairs = build_scenarios(singles, pairs, mixed, tier)
    by_id = sc.run_scenarios(ck, scen, "main", nproc=8 if tier == "quick" else 12)
    bad, ext, nev, res = sc.validate(ck, PID, scen, by_id, "main")
    ck.add_tlc(res, "trace validation")
    bad = sc.confirm_liveness(ck, PID, scen, bad)
    sc.record_results(ck, PID, scen, by_id, bad, ext)
    applied = set()
    nfaulted = 0
    for s in scen:
        end = [e for e in by_id[s["id"]] if e["comp"] == "app" and e["ev"] == "end"][-1]
        if end["faults_applied"] > 0:
            nfaulted += 1
            applied.add(json.dumps(s["faults"], sort_keys=True))
    ck.cov["traces_validated_against_impl"] = len(scen)
    ck.cov["evaluations"] = nev
    ck.cov["distinct_nontrivial"] = len(applied)
    ck.cov["rule"] = ("one recorded run of the two real endpoints per TLC-generated fault schedule (all single faults "
                      f"[{len(singles)}], each with random and wrap-around initial TSNs, and {npairs} of {len(pairs)} "
                      "fault pairs; {len(mixed)} schedules of the reliable+partially-reliable model on a two-channel workload "
                      "over five TSN-space layouts), replayed by TLC through Trace_SctpAssoc with the C01 rules (PrefixDelivery on "
                      "the application's recv stream, EventuallyDelivered after the fault phase); non-trivial = "
                      "distinct schedules of which at least one fault hit a packet")
    ck.cov["samples"] = [{"scenario": s["id"], "faults": s["faults"], "msgs": s["msgs"]} for s in scen[2:6]]
    ck.cov["exhaustive"] = bool(gen_finished and tier == "thorough")
    ck.assumptions += [
        "model bounds: TSN mod 16 (initial TSN 0 and 14: wrap inside the run), SSN mod 8, window 2, 1 reliable ordered "
        "channel, messages of 1 and 2 fragments (quick) / up to 3 fragments, both directions, 2 channels (thorough)",
        "fault schedules: all single faults and (quick: a seeded sample of) fault pairs of {drop, dup, hold/reorder, "
        "late duplicate} on INIT, INIT-ACK, COOKIE-ECHO, COOKIE-ACK, DATA, SACK; timers fire only when nothing is in flight",
        "liveness verdicts: deadline 4 s = 20 x rto_max (rto 50..200 ms), confirmed 3 times, last run alone",
        "trusted: TLC, the proxy's record decryption and SCTP reader, the event hooks (add-only, cfg rustrtc_verif)",
    ]
    sc.cleanup(ck)
    ck.finish()


def replay(path):
    ck = vlib.Check(PID, "quick")
    vlib.build_harness(["sctp"])
    with open(path) as f:
        rec = json.load(f)
    s = rec["record"]["scenario"]
    by_id = sc.run_scenarios(ck, [s], "replay", nproc=1)
    bad, ext, nev, res = sc.validate(ck, PID, [s], by_id, "replay")
    bad = sc.confirm_liveness(ck, PID, [s], bad)
    sc.record_results(ck, PID, [s], by_id, bad, ext)
    ck.cov.update(states=res["distinct"], transitions=res["generated"], traces_validated_against_impl=1,
                  evaluations=nev, samples=[s])
    ck.finish()


def selftest():
    """negative controls that need no mutated tree: (i) the deviation-on model violates OpenOnce;
    (ii) a recorded clean trace with one delivery removed / duplicated / swapped is rejected under C01"""
    ck = vlib.Check(PID + "-selftest", "quick")
    vlib.build_harness(["sctp"])
    res = sc.tlc_mc(ck, "dev", mode="set", deviations='{"SetupOverwrite"}', invariants=["OpenOnce"], properties=[],
                    constraint="DevBound", timeout=300)
    ok1 = any("OpenOnce" in e for e in res["errors"])
    print("selftest: SetupOverwrite model violates OpenOnce:", ok1)
    for dev, msgs, budget in (("AdvPointWrongSpace", "MsgsTwoCh3", 1), ("FwdPlainCompare", "MsgsTwoCh3", 1),
                              ("FwdNotRetransmitted", "MsgsPR2", 2)):
        pass
    r = sc.tlc_mc(ck, "dev_stale", mode="fifo", budget=2, fair=True, msgs="MsgsA22", init_a="{14}", init_b="{0}", win=3, rwnd=2,
                  action_constraint="WindowFaults", deviations='{"StaleSackUpdatesRwnd"}', invariants=[],
                  properties=["EventuallyDelivered"], timeout=900)
    okd = any("EventuallyDelivered" in e for e in r["errors"])
    print("selftest: StaleSackUpdatesRwnd model violates EventuallyDelivered:", okd)
    ok1 = ok1 and okd
    for dev, msgs, budget in (("AdvPointWrongSpace", "MsgsTwoCh3", 1), ("FwdPlainCompare", "MsgsTwoCh3", 1),
                              ("FwdNotRetransmitted", "MsgsPR2", 2)):
        r = sc.tlc_mc(ck, "dev_" + dev, mode="fifo", budget=budget, fair=True, chans="ChansPR", msgs=msgs, init_a="{14}",
                      init_b="{0}", win=3, deviations='{"%s"}' % dev, invariants=[], properties=["EventuallyDelivered"],
                      timeout=900)
        okd = any("EventuallyDelivered" in e for e in r["errors"])
        print(f"selftest: {dev} model violates EventuallyDelivered:", okd)
        ok1 = ok1 and okd
    rng = random.Random(1)
    s = sc.scenario("clean", [], [sc.chan(1)], sc.basic_workload(rng))
    by = sc.run_scenarios(ck, [s], "selftest", nproc=1)
    ev = by["clean"]
    idx = [i for i, e in enumerate(ev) if e["comp"] == "app" and e["ev"] == "recv" and e.get("kind") == "msg" and e["inst"] == "B"]
    results = {}
    for name, mut in (("drop-first-delivery", lambda l: l[:idx[0]] + l[idx[0] + 1:]),
                      ("duplicate-delivery", lambda l: l[:idx[0] + 1] + [dict(l[idx[0]])] + l[idx[0] + 1:]),
                      ("swap-deliveries", lambda l: l[:idx[0]] + [l[idx[1]]] + l[idx[0] + 1:idx[1]] + [l[idx[0]]] + l[idx[1] + 1:]),
                      ("truncate", lambda l: l[:idx[0]] + [dict(l[idx[0]], len=l[idx[0]]["len"] + 1)] + l[idx[0] + 1:])):
        bad, ext, nev, _ = sc.validate(ck, PID, [s], {"clean": mut(list(ev))}, "selftest_" + name)
        results[name] = any(b["rule"] == "PrefixDelivery" for b in bad)
        print(f"selftest: corrupted trace ({name}) rejected:", results[name])
    # the two internal-contract rules: a SACK on the wire that acknowledges more than arrived; a queue snapshot
    # that shows fewer unacknowledged chunks than the processed SACKs justify
    i_sack = next(i for i, e in enumerate(ev) if e["comp"] == "net" and e["dir"] == "B" and any(c["type"] == 3 for c in e["chunks"]))
    i_snap = next(i for i, e in enumerate(ev) if e["comp"] == "sctp" and e["ev"] == "snap" and e["inst"] == "A" and e["unacked"] > 0)

    def ahead(l):
        l = list(l)
        e = json.loads(json.dumps(l[i_sack]))
        for c in e["chunks"]:
            if c["type"] == 3:
                c["cum"] = (c["cum"] + 5) & 0xFFFFFFFF
        l[i_sack] = e
        return l
    for name, mut, rule in (("sack-acknowledges-unreceived", ahead, "AcksOnlyReceived"),
                            ("chunk-given-up-unacknowledged", lambda l: l[:i_snap] + [dict(l[i_snap], unacked=0, sentq=0)] + l[i_snap + 1:], "AckedOnlyIfCovered")):
        bad, ext, nev, _ = sc.validate(ck, PID, [s], {"clean": mut(list(ev))}, "selftest_" + name)
        results[name] = any(b["rule"] == rule for b in bad)
        print(f"selftest: corrupted trace ({name}) rejected by {rule}:", results[name])
    # set-level form of AckedOnlyIfCovered: a SACK effect that removes a chunk no processed SACK covers
    s2 = sc.scenario("lossy", [sc.F("A", "DATA", 1, "drop", t=1)], [sc.chan(1)], sc.basic_workload(random.Random(2)))
    by2 = sc.run_scenarios(ck, [s2], "selftest2", nproc=1)
    ev2 = by2["lossy"]
    i_fx = next(i for i, e in enumerate(ev2) if e["comp"] == "sctp" and e["ev"] == "sackfx" and e["inst"] == "A" and e["removed"])
    fx = dict(ev2[i_fx], removed=ev2[i_fx]["removed"] + [(max(ev2[i_fx]["removed"]) + 1) & 0xFFFFFFFF])
    bad, _, _, _ = sc.validate(ck, PID, [s2], {"lossy": ev2[:i_fx] + [fx] + ev2[i_fx + 1:]}, "selftest_sackfx")
    results["sack-effect-uncovered"] = any(b["rule"] == "AckedOnlyIfCovered" for b in bad)
    print("selftest: corrupted trace (sack-effect-uncovered) rejected by AckedOnlyIfCovered:", results["sack-effect-uncovered"])
    bad2, _, _, _ = sc.validate(ck, PID, [s2], by2, "selftest_clean2")
    bad, _, _, _ = sc.validate(ck, PID, [s], by, "selftest_clean")
    bad = bad + bad2
    print("selftest: unmodified trace accepted:", not bad)
    raise SystemExit(0 if ok1 and all(results.values()) and not bad else 2)
