#!/usr/bin/env python3
"""Which rustrtc functions do the C07 cases reach?  (development measurement, not part of the check)

The system llvm-cov (14) cannot read rustc's (LLVM 22) profiles and no matching llvm-tools are installed, so this
reads the raw profile (format version 10) of a harness built with `-C instrument-coverage` itself: a function counts
as reached when any of its counters is non-zero; "regions" is the share of its counters that are non-zero (a proxy
for branches).  Usage:

  cd /verif/harness && LLVM_PROFILE_FILE=/verif/out/C07/cov/build-%p.profraw CARGO_TARGET_DIR=target_alt/cov \
      RUSTFLAGS="--cfg rustrtc_verif --check-cfg cfg(rustrtc_verif) -C instrument-coverage" \
      cargo build --release --offline --bin inputs
  (LLVM_PROFILE_FILE matters for the build too: instrumented build scripts and proc-macros write a profile when they
  run, by default into their working directory - which is /repo for rustrtc's)
  ./check C07                      # leaves out/C07/{grammar,cases}_<pass>.ndjson
  python3 checks/C07_cov.py [pass ...]
"""
import glob
import hashlib
import os
import re
import struct
import subprocess
import sys
import zlib

ROOT = os.path.dirname(os.path.dirname(os.path.abspath(__file__)))
OUT = os.path.join(ROOT, "out", "C07")
BIN = os.path.join(ROOT, "harness", "target_alt", "cov", "release", "inputs")


def uleb(b, i):
    v = s = 0
    while True:
        c = b[i]
        i += 1
        v |= (c & 0x7F) << s
        s += 7
        if not c & 0x80:
            return v, i


def read_profraw(path, acc):
    b = open(path, "rb").read()
    h = struct.unpack("<16Q", b[:128])
    assert h[0] == 0xFF6C70726F667281 and h[1] & 0xFFFFFFFF == 10, "unexpected raw profile version"
    ids, ndata, pad1, ncnt, pad2, nbitmap, pad3, names_size, cdelta = h[2], h[3], h[4], h[5], h[6], h[7], h[8], h[9], h[10]
    data0 = 128 + ids
    cnt0 = data0 + ndata * 64 + pad1
    names0 = cnt0 + ncnt * 8 + pad2 + nbitmap + pad3
    names = []
    i, end = names0, names0 + names_size
    while i < end:
        ulen, i = uleb(b, i)
        clen, i = uleb(b, i)
        if clen:
            chunk = zlib.decompress(b[i:i + clen])
            i += clen
        else:
            chunk = b[i:i + ulen]
            i += ulen
        names += chunk.split(b"\x01")
    by_hash = {struct.unpack("<Q", hashlib.md5(n).digest()[:8])[0]: n.decode("utf8", "replace") for n in names}
    for k in range(ndata):
        rec = b[data0 + k * 64: data0 + k * 64 + 64]
        nameref, _fh, cptr = struct.unpack("<QQQ", rec[:24])
        n = struct.unpack("<I", rec[48:52])[0]
        off = (cptr - (cdelta - k * 64)) & 0xFFFFFFFFFFFFFFFF
        if off + n * 8 > ncnt * 8:
            continue
        cs = struct.unpack(f"<{n}Q", b[cnt0 + off: cnt0 + off + n * 8])
        name = by_hash.get(nameref)
        if name is None:
            continue
        cur = acc.setdefault(name, [0] * n)
        if len(cur) == n:
            for j, c in enumerate(cs):
                cur[j] += c


def v0_idents(sym):
    """Identifiers of a v0-mangled symbol in order (enough to recover `crate::module::Type::function`)."""
    s, i, out = sym, 2, []
    n = len(s)
    while i < n:
        c = s[i]
        if c.isdigit():
            j = i
            while j < n and s[j].isdigit():
                j += 1
            ln = int(s[i:j])
            if j < n and s[j] == "_":
                j += 1
            out.append(s[j:j + ln])
            i = j + ln
        elif c in "sB":          # disambiguator / back reference: base-62 number up to '_'
            j = i + 1
            while j < n and s[j] != "_":
                j += 1
            i = j + 1
        else:
            i += 1
    return out


def demangle(names):
    out = []
    for n in names:
        if n.startswith("_R"):
            ids = v0_idents(n)
            # the instantiating crate is appended at the end of generic instances
            if len(ids) > 1 and ids[-1] in ("inputs", "rtcverif"):
                ids = ids[:-1]
            out.append("::".join(ids))
        else:
            out.append(n)
    return out


MODULES = ["rustrtc::rtp::", "rustrtc::rtx::", "rustrtc::sdp::", "rustrtc::srtp::", "rustrtc::media::depacketizer", "rustrtc::transports::ice::stun",
           "rustrtc::transports::ice::turn", "rustrtc::transports::ice::shared_tcp", "rustrtc::transports::ice::shared_udp",
           "rustrtc::transports::ice::conn", "rustrtc::transports::ice::", "rustrtc::transports::dtls::record", "rustrtc::transports::dtls::handshake",
           "rustrtc::transports::dtls::", "rustrtc::transports::sctp", "rustrtc::transports::datachannel", "rustrtc::transports::rtp",
           "rustrtc::transports::udptl", "rustrtc::peer_connection"]


def main():
    passes = sys.argv[1:] or [os.path.basename(p)[6:-7] for p in sorted(glob.glob(os.path.join(OUT, "cases_*.ndjson")))
                              if not re.search(r"replay|confirm|live$", p)]
    cov = os.path.join(OUT, "cov")
    os.makedirs(cov, exist_ok=True)
    for f in glob.glob(os.path.join(cov, "*.profraw")):
        os.remove(f)
    for p in passes:
        g, c = os.path.join(OUT, f"grammar_{p}.ndjson"), os.path.join(OUT, f"cases_{p}.ndjson")
        if not (os.path.exists(g) and os.path.exists(c)):
            continue
        procs = [subprocess.Popen([BIN, g, c, os.path.join(cov, f"obs_{p}_{i}.ndjson"), f"{i}/8"],
                                  env=dict(os.environ, LLVM_PROFILE_FILE=os.path.join(cov, f"{p}-{i}-%p.profraw"), VERIF_VARIANTS="2"))
                 for i in range(8)]
        for q in procs:
            q.wait()
        print("ran", p, [q.returncode for q in procs], file=sys.stderr)
    acc = {}
    for f in glob.glob(os.path.join(cov, "*.profraw")):
        read_profraw(f, acc)
        os.remove(f)
    names = list(acc)
    dem = demangle(names)
    rows = {}
    for n, d in zip(names, dem):
        if not d.startswith("rustrtc::") or "::tests::" in d or "verif" in d:
            continue
        mod = next((m for m in MODULES if d.startswith(m)), None)
        if mod is None:
            continue
        cs = acc[n]
        r = rows.setdefault(mod, [0, 0, 0, 0, []])
        r[0] += 1
        r[2] += len(cs)
        r[3] += sum(1 for c in cs if c)
        if any(cs):
            r[1] += 1
        else:
            r[4].append(d)
    print(f"{'module':46} {'functions':>9} {'reached':>8} {'regions':>8} {'hit':>6}")
    for mod in MODULES:
        if mod in rows:
            f, fr, c, ch, miss = rows[mod]
            print(f"{mod:46} {f:9} {fr:8} {c:8} {ch:6}   {100 * fr // max(f, 1)}% / {100 * ch // max(c, 1)}%")
    if os.environ.get("C07_COV_MISSED"):
        for mod in MODULES:
            if mod in rows:
                print("\n--", mod)
                for d in sorted(set(rows[mod][4]))[:80]:
                    print("   ", d)


if __name__ == "__main__":
    main()
