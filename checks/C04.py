"""C04 - SRTP/SRTCP protection round-trips and matches an independent implementation.

Srtp.tla (sender index, RFC 3711 index estimate, receiver update, SRTCP index) is model-checked by TLC
(SenderAgreement, IndexAgreement, NoPhantomIndex); every (state, action) edge of the bounded models is then
executed on real SrtpSessions for the four profiles: rustrtc->rustrtc, rustrtc->webrtc-srtp, webrtc-srtp->rustrtc."""
import _srtp
import vlib

PID = "C04"

RULE = ("every (state, action) edge of the bounded Srtp models (scaled 4-bit sequence space: every sender step inside "
        "the +-half window incl. wraps and reordering, every delivery order, ROC 0..2; real 16-bit boundary alphabet "
        "{0,1,32767,32768,32769,65534,65535}; 3 interleaved SSRCs with SRTCP) is replayed on real SrtpSessions for "
        "AES_CM_128_HMAC_SHA1_80/_32, AEAD_AES_128_GCM and the NULL cipher with seed-chosen packet shapes (CSRCs, "
        "extension, padding, payload 0..1200) and keys; at each delivery the model's must-accept verdict is compared "
        "for rustrtc->rustrtc, rustrtc->webrtc-srtp and webrtc-srtp->rustrtc and the decoded packet with the original; "
        "after the last step every genuine packet is probed on a copy of the receiver. non-trivial = the action is a "
        "protect or a delivery")
ASSUME = [
    "cryptographic primitives (AES, HMAC-SHA1, GHASH) are trusted; a packet authenticates iff produced by the key holder with the index the receiver reconstructs",
    "sequence space scaled to 4 bits (embedding real = 4096*v + jitter, model wrap on the real wrap) plus exact 16-bit boundary alphabet; not all 2^32 (last, current) pairs",
    "ROC <= 2 at the sender; ROC 2^32-1 unreachable without a state-setting hook",
    "reference webrtc-srtp 0.17.2 has no NULL-cipher profile (rustrtc<->rustrtc only there) and follows the last accepted packet: it is consulted only inside that domain and for canonical RFC 8285 extension blocks",
    "replayed (duplicate) deliveries: outcome not judged (the statement is silent on replay protection)",
]


def run(tier):
    _srtp.run(PID, tier, RULE, ASSUME, bits="few")


def replay(path):
    _srtp.replay_one(PID, path)


def selftest():
    _srtp.selftest(PID)
