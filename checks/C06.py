"""C06 - only authenticated STUN connectivity checks influence ICE state; responses are honoured only
for outstanding transactions.

IceAgent.tla is checked by TLC (UnauthInert, UnmatchedInert hold with Deviations = {}); every
(state, input) edge of the bounded model is then replayed on a real IceTransport: the harness plays the
legitimate peer P (knows the credentials) and the stranger X, drives the agent along the edge's history,
sends the edge's input (built with the repo's encoder and, independently, with the `stun` crate) and
compares the projection after the packet has been handled with the projection before it."""
import json
import os
import subprocess
import vlib

PID = "C06"
NSHARDS = 8

CFG = {
    "quick": [
        ("udp", dict(Socks='{"udp"}', Lites="{FALSE}",
                     UserAlpha='{"ok", "missing", "wrong"}',
                     MiAlpha='{"ok", "missing", "wrongKey", "remoteKey", "garbled"}',
                     FpAlpha='{"ok", "none"}'), (8, 8)),
        # shared single-port UDP socket: the demux in front of the agent adds routing state (9x the states);
        # enable_ice_lite (no effect on the ICE transport in WebRTC mode) is varied across the two entries
        ("mux", dict(Socks='{"mux"}', Lites="{TRUE}",
                     UserAlpha='{"ok", "missing", "wrong"}',
                     MiAlpha='{"ok", "missing"}',
                     FpAlpha='{"ok"}'), (8, 8)),
        # ICE-TCP: requests arrive on connections accepted by the agent's passive TCP candidate (RFC 4571 frames)
        ("tcp", dict(Socks='{"tcp"}', Lites="{FALSE}",
                     UserAlpha='{"ok", "missing", "wrong"}',
                     MiAlpha='{"ok", "missing", "wrongKey", "remoteKey", "garbled"}',
                     FpAlpha='{"ok", "none"}'), (8, 6)),
        # the process-wide shared single-port ICE-TCP listener: the first frame of a new connection is demultiplexed
        # by the ufrag in its USERNAME and attaches the connection; later frames arrive on the attached connection
        ("tcpmux", dict(Socks='{"tcpmux"}', Lites="{FALSE}",
                        UserAlpha='{"ok", "missing", "wrong"}',
                        MiAlpha='{"ok", "missing", "wrongKey", "remoteKey", "garbled"}',
                        FpAlpha='{"ok"}'), (8, 6)),
        # through a TURN relay (fake TURN server of the harness): the agent's only local candidate is the relay candidate;
        # a packet arrives wrapped in a Data indication, as ChannelData on the channel bound for its source, or BARE on the
        # TURN client's 5-tuple (from the server address / from a stranger), where it is dispatched with the agent's own
        # relayed address as source
        ("turn", dict(Socks='{"turn"}', Lites="{FALSE}",
                      UserAlpha='{"ok", "missing", "wrong"}',
                      MiAlpha='{"ok", "missing"}',
                      FpAlpha='{"ok"}'), (8, 6)),
    ],
    "thorough": [
        ("udp-fine", dict(Socks='{"udp"}', Lites="{FALSE, TRUE}",
                          UserAlpha='{"ok", "missing", "wrong", "swapped", "prefix", "nocolon", "empty"}',
                          MiAlpha='{"ok", "missing", "wrongKey", "remoteKey", "emptyKey", "ufragKey", "garbled", '
                                  '"garbledBody", "truncated"}',
                          FpAlpha='{"ok", "none"}'), (60, 12)),
        ("mux-fine", dict(Socks='{"mux"}', Lites="{FALSE, TRUE}",
                          UserAlpha='{"ok", "missing", "wrong", "swapped", "nocolon"}',
                          MiAlpha='{"ok", "missing", "wrongKey", "remoteKey", "garbled"}',
                          FpAlpha='{"ok", "none"}'), (30, 12)),
        ("tcp-fine", dict(Socks='{"tcp"}', Lites="{FALSE, TRUE}",
                          UserAlpha='{"ok", "missing", "wrong", "swapped", "prefix", "nocolon", "empty"}',
                          MiAlpha='{"ok", "missing", "wrongKey", "remoteKey", "emptyKey", "ufragKey", "garbled", '
                                  '"garbledBody", "truncated"}',
                          FpAlpha='{"ok", "none"}'), (30, 8)),
        ("tcpmux-fine", dict(Socks='{"tcpmux"}', Lites="{FALSE, TRUE}",
                             UserAlpha='{"ok", "missing", "wrong", "swapped", "prefix", "nocolon", "empty"}',
                             MiAlpha='{"ok", "missing", "wrongKey", "remoteKey", "emptyKey", "ufragKey", "garbled", '
                                     '"garbledBody", "truncated"}',
                             FpAlpha='{"ok", "none"}'), (30, 8)),
        ("turn-fine", dict(Socks='{"turn"}', Lites="{FALSE}",
                           UserAlpha='{"ok", "missing", "wrong", "swapped", "nocolon"}',
                           MiAlpha='{"ok", "missing", "wrongKey", "remoteKey", "garbled"}',
                           FpAlpha='{"ok", "none"}'), (30, 8)),
    ],
}


def write_cfg(path, c, emit, deviations="{}"):
    with open(path, "w") as f:
        f.write(f"""SPECIFICATION Spec
CONSTANTS
  Roles = {{"controlling", "controlled"}}
  Socks = {c['Socks']}
  Lites = {c['Lites']}
  UserAlpha = {c['UserAlpha']}
  MiAlpha = {c['MiAlpha']}
  FpAlpha = {c['FpAlpha']}
  Deviations = {deviations}
VIEW view
INVARIANTS TypeOK
PROPERTIES UnauthInert UnmatchedInert
ACTION_CONSTRAINT {'EmitEdge' if emit else 'NoEmit'}
CHECK_DEADLOCK FALSE
""")


def sig_of(r):
    s = dict(r.get("sig") or {})
    s.setdefault("sub", "ice")
    return s


def replay_edges(ck, edges_path, label, shards=NSHARDS):
    """Run the replayer in `shards` worker processes (each owns the global hook log of its process)."""
    procs = []
    outs = []
    for i in range(shards):
        out = os.path.join(ck.dir, f"replay_{label}_{i}.ndjson")
        outs.append(out)
        env = dict(os.environ)
        env["VERIF_SEED"] = str(vlib.seed())
        procs.append(subprocess.Popen([vlib.bin_path("iceagent"), edges_path, out, f"{i}/{shards}"], cwd=vlib.ROOT,
                                      env=env, stdout=subprocess.DEVNULL, stderr=subprocess.PIPE, text=True))
    for p in procs:
        try:
            _, err = p.communicate(timeout=3000)
        except subprocess.TimeoutExpired:
            for q in procs:
                q.kill()
            raise vlib.ToolError("iceagent replayer timed out")
        if p.returncode != 0:
            raise vlib.ToolError(f"iceagent replayer failed rc={p.returncode}: {err[-2000:]}")
    summ = {"edges": 0, "groups": 0, "skipped": 0, "stats": {}}
    for out in outs:
        for r in vlib.read_ndjson(out):
            t = r.get("type")
            if t == "summary":
                summ["groups"] += r["groups"]
                for k, v in r["stats"].items():
                    summ["stats"][k] = summ["stats"].get(k, 0) + v
            elif t == "divergence" and r.get("rule") in ("UnauthInert", "UnmatchedInert"):
                ck.divergence(sig_of(r), {k: r[k] for k in ("rule", "changed", "before", "after", "reply", "builders", "case")})
            elif t in ("drift", "divergence"):
                ck.drift.append({"why": r.get("why"), "act": r.get("act") or r.get("case", {}).get("act"),
                                 "pre": [h.get("a") for h in (r.get("pre") or r.get("case", {}).get("pre") or [])]})
            elif t == "wire":
                # conformance of the agent's own messages: property C16 (checks/C16.py runs this harness for it)
                ck.drift.append({"why": "agent wire message (C16)", "detail": r.get("detail")})
            elif t == "toolerror":
                raise vlib.ToolError(f"replayer: {r.get('detail')}")
        os.remove(out)
    summ["edges"] = summ["stats"].get("edges", 0)
    summ["skipped"] = summ["stats"].get("skipped_edges", 0)
    return summ


def run(tier):
    ck = vlib.Check(PID, tier)
    vlib.build_harness(["iceagent"])
    total = 0
    nontrivial = set()
    exhaustive = True
    for label, consts, (nsim, depth) in CFG[tier]:
        cfg = os.path.join(vlib.SPEC, f"MC_IceAgent_{tier}.gen.cfg")
        write_cfg(cfg, consts, emit=True)
        edges = os.path.join(ck.dir, f"edges_{tier}_{label}.ndjson")
        try:
            res = vlib.tlc("MC_IceAgent", os.path.basename(cfg), tags=("EDGE",), sinks={"EDGE": edges},
                           timeout=1800 if tier == "thorough" else 600)
        finally:
            try:
                os.remove(cfg)
            except OSError:
                pass
        vlib.tlc_ok(res, label)
        ck.add_tlc(res, label)
        summ = replay_edges(ck, edges, f"{tier}_{label}")
        total += summ["edges"]
        with open(edges) as f:
            for i, line in enumerate(f):
                e = json.loads(line)
                if e["rule"] != "EXT":
                    nontrivial.add(hash(line))
                if len(ck.cov["samples"]) < 6 and e["rule"] != "EXT" and e["pre"] and i % 997 == 0:
                    ck.cov["samples"].append({"cfg": e["cfg"], "pre": [h["a"] for h in e["pre"]], "act": e["act"],
                                              "rule": e["rule"], "from": e["from"]})
        ck.notes.append({"label": label, "replayed_edges": summ["edges"], "groups": summ["groups"],
                         "skipped_edges": summ["skipped"], "stats": summ["stats"]})
        exhaustive = exhaustive and res["finished"] and summ["edges"] == res["counts"]["EDGE"] and summ["skipped"] == 0
        os.remove(edges)
        # G-sim: random behaviours with their real, unmerged histories (inert inputs stay in the prefix), every
        # out-edge of every visited state (TLC prints all of them: about 50-100 edges per visited state): catches implementation state that the model state does not determine
        cfg = os.path.join(vlib.SPEC, f"MC_IceAgent_{tier}_sim.gen.cfg")
        write_cfg(cfg, consts, emit=True)
        edges = os.path.join(ck.dir, f"edges_{tier}_{label}_sim.ndjson")
        try:
            res = vlib.tlc("MC_IceAgent", os.path.basename(cfg), tags=("EDGE",), sinks={"EDGE": edges},
                           simulate=nsim, depth=depth, timeout=900, tag=f"MC_IceAgent_{tier}_sim")
        finally:
            try:
                os.remove(cfg)
            except OSError:
                pass
        vlib.tlc_ok(res, label + "/sim")
        ck.add_tlc(res, label + "/sim")
        summ = replay_edges(ck, edges, f"{tier}_{label}_sim")
        total += summ["edges"]
        ck.notes.append({"label": label + "/sim", "behaviours": nsim, "depth": depth, "replayed_edges": summ["edges"],
                         "groups": summ["groups"], "skipped_edges": summ["skipped"], "stats": summ["stats"]})
        os.remove(edges)
    ck.cov["traces_validated_against_impl"] = total
    ck.cov["evaluations"] = total
    ck.cov["distinct_nontrivial"] = len(nontrivial)
    ck.cov["exhaustive"] = exhaustive
    ck.cov["rule"] = ("every (state, input) edge of the bounded IceAgent model (roles x ice-lite flag x reachable "
                      "ICE states incl. New/Checking/Connected with and without nomination, peer-reflexive stranger, "
                      "concurrent check rounds; inputs = Binding requests over src x USERNAME x MESSAGE-INTEGRITY x "
                      "USE-CANDIDATE x FINGERPRINT variants and responses over {outstanding, unknown} transaction x "
                      "class x src) is executed on a real IceTransport; non-trivial = the input is an unauthenticated "
                      "request or an unmatched response (the edges C06 speaks about)")
    ck.assumptions += [
        "bounded: one signalled peer address P and one stranger address X on 127.0.0.1; socket kinds as listed in tlc_runs",
        "the request/response variants are those named in the model's alphabets (see harness/src/bin/iceagent.rs for "
        "their byte-level construction); bit positions of garbling are drawn from VERIF_SEED",
        "'handled' is decided by the pkt_done hook at the end of handle_packet plus 32 scheduler yields on a "
        "single-threaded runtime; effects that would need further network round trips are outside one edge",
        "peer responses are spaced by more than the 200 ms nomination grace window (the model has no action inside it)",
    ]
    ck.finish()


def replay(path):
    ck = vlib.Check(PID, "quick")
    vlib.build_harness(["iceagent"])
    with open(path) as f:
        rec = json.load(f)
    case = rec["record"]["case"]
    ep = os.path.join(ck.dir, "replay_one.ndjson")
    vlib.write_ndjson(ep, [case])
    summ = replay_edges(ck, ep, "one", shards=1)
    ck.cov.update(states=1, transitions=1, traces_validated_against_impl=summ["edges"], samples=[case])
    ck.finish()


def selftest():
    """Negative controls on the model: with the pinned code's deviation switched on TLC must refute
    UnauthInert; with 'AnyResponse' it must refute UnmatchedInert."""
    ok = True
    for dev, prop in (("NoRequestAuth", "UnauthInert"), ("AnyResponse", "UnmatchedInert")):
        cfg = os.path.join(vlib.SPEC, "MC_IceAgent_selftest.gen.cfg")
        write_cfg(cfg, CFG["quick"][0][1], emit=False, deviations='{"%s"}' % dev)
        res = vlib.tlc("MC_IceAgent", os.path.basename(cfg), timeout=600, tag="MC_IceAgent_selftest")
        os.remove(cfg)
        hit = any(prop in e for e in res["errors"]) or any(prop in l for l in res["raw_tail"])
        print(f"selftest: Deviations={{{dev}}} violates {prop}: {hit}")
        ok = ok and hit
    raise SystemExit(0 if ok else 2)
