import os
"""Shared by C17 and C10: flatten recorded pc-pair events into the uniform records Trace_Lifecycle reads."""
import json

KEYS = dict(t="", inst="", site="", peer="", sig="", reason="", x="", n=0, m=0, b1=False, b2=False, b3=False, b4=False,
            evs=[])

SITE_MAP = {
    "nodtls.start_failed": "conn.start_failed", "nodtls.connected": "conn.connected",
    "nodtls.ice_disc": "conn.ice_disc", "nodtls.ice_rec": "conn.ice_rec", "nodtls.grace": "conn.grace",
    "connx.ice_disc": "conn.ice_disc", "connx.ice_rec": "conn.ice_rec", "connx.grace": "conn.grace",
    "nodtls.loops_done": "conn.loops_done",
    "direct.ice_failed": "iceloop.ice_failed", "direct.ice_closed": "iceloop.ice_closed",
}


def rec(**kw):
    r = dict(KEYS)
    r["evs"] = []
    r.update(kw)
    return r


def ice_name(s):
    return "Connected" if s == "Completed" else s


def flatten(events, inst):
    """events of ONE scenario (reset ... end) -> list of flat records for endpoint `inst`."""
    out = []
    done = False
    for e in events:
        comp, ev = e.get("comp"), e.get("ev")
        if comp == "life" and ev == "reset":
            sc = e["scenario"]
            evs = [x for x in (sc.get("ev1", "none"), sc.get("ev2", "none")) if x != "none"]
            out.append(rec(t="reset", site=sc.get("phase", "none"), evs=evs, n=int(sc.get("id", 0))))
            continue
        if comp == "life" and ev == "end" and e.get("inst") != inst and inst is not None and "other" in e:
            # the endpoint that did not initiate: judged after its own application has closed it at the end
            o = e["other"]
            out.append(rec(t="end", peer=o["peer"], reason=o["reason"], sig=o["sig"], x="-", site=o["final_peer"],
                           n=int(o["dc_closes"]), m=int(o["api_hangs"]), b1=o["peer"] in ("Closed", "Failed"),
                           b2=bool(o["dc_was_open"]), b3=bool(e.get("released")), b4=bool(e.get("hit"))))
            continue
        if comp == "life" and ev == "end":
            out.append(rec(t="end", peer=e.get("peer", ""), reason=e.get("reason", ""), sig=e.get("final_sig", ""),
                           x=(e.get("peer2", "-") if e.get("second_close_called", True) else "-"),
                           site=e.get("final_peer", ""), n=int(e.get("dc_closes", 0)), m=int(e.get("api_hangs", 0)),
                           b1=bool(e.get("terminal")), b2=bool(e.get("dc_was_open")), b3=bool(e.get("released")),
                           b4=bool(e.get("hit"))))
            continue
        if comp == "life" and ev == "done":
            done = True
            continue
        if done or e.get("inst") != inst:
            continue
        if comp == "pc":
            if ev in ("proc_start", "proc_exit"):
                out.append(rec(t=ev, site=e["proc"], n=int(e.get("idx", 0))))
            elif ev == "ice_seen":
                out.append(rec(t=ev, site=ice_name(e["site"]), peer=e["peer"], sig=e["sig"], reason=e["reason"]))
            elif ev == "pub":
                site = SITE_MAP.get(e["site"], e["site"])
                out.append(rec(t=ev, site=site, x="pre:" + site, peer=e["peer"], sig=e["sig"], reason=e["reason"]))
            elif ev in ("sig", "start_transport", "dtls_started", "dtls_connected", "loops_done", "close_begin",
                        "close_noop", "close_end", "drop_begin", "drop_end"):
                out.append(rec(t=ev, site=e.get("site", ""), peer=e["peer"], sig=e["sig"], reason=e["reason"]))
            elif ev == "loops_start":
                out.append(rec(t=ev, n=int(e.get("site", "0") or 0), peer=e["peer"], sig=e["sig"], reason=e["reason"]))
        elif comp == "watch":
            if ev == "peer":
                out.append(rec(t="w_peer", peer=e["v"]))
            elif ev == "sig":
                out.append(rec(t="w_sig", sig=e["v"]))
        elif comp == "app":
            if ev in ("dc_open", "dc_close"):
                out.append(rec(t=ev, n=int(e.get("sid", 0))))
            elif ev in ("api_begin", "api_end", "api_hang"):
                call = e.get("call", "")
                site = "wfc" if call.startswith("wait_for_connected") else ("send" if call.startswith("send_data.blocked") else "other")
                out.append(rec(t=ev, site=site, x=call, n=int(e.get("ms", 0) or 0)))
        elif comp == "life":
            if ev == "fire":
                out.append(rec(t="fire", site=e["event"], n=int(e.get("ord", 0))))
            elif ev == "flap":
                out.append(rec(t="flap", site=e["what"], n=int(e.get("k", 0))))
    return out


def split_scenarios(path):
    """trace file -> list of event lists, one per scenario (reset ... end)."""
    cur, out = None, []
    with open(path) as f:
        for line in f:
            line = line.strip()
            if not line:
                continue
            e = json.loads(line)
            if e.get("comp") == "life" and e.get("ev") == "reset":
                cur = [e]
                out.append(cur)
            elif cur is not None:
                cur.append(e)
    return out


def flatten_c10(events):
    """events of ONE C10 run (reset ... end) -> flat records of BOTH endpoints for Trace_LifecyclePair."""
    out = []
    closing = False
    moved = None    # reneg = moved: the label of the endpoint that has been replaced by a fresh one
    for e in events:
        comp, ev = e.get("comp"), e.get("ev")
        if comp == "life" and ev == "moved":
            moved = e.get("inst")
            continue
        if moved and comp == "pc" and e.get("inst") == moved and ev != "sig":
            # start-up of the fresh endpoint: judged through the four commits, `reneg.still_connected` (it has to
            # report Connected) and the per-medium delivery of the second round
            continue
        if comp == "life" and ev == "reset":
            sc = e["scenario"]
            c = sc["cfg"]
            mux_a, mux_b = c.get("muxA", c.get("mux", "require")), c.get("muxB", c.get("mux", "require"))
            co_a, co_b = c.get("compatA", c.get("compat", "Standard")), c.get("compatB", c.get("compat", "Standard"))
            la_a, la_b = c.get("latchingA", c.get("latching", False)), c.get("latchingB", c.get("latching", False))
            out.append(rec(t="reset", n=int(sc.get("id", 0)), site=c["mode"], b1="dc" in c["media"],
                           b2="audio" in c["media"], b3="video" in c["media"], x=c["bundle"], peer=c["ice"],
                           inst=c["offerer"], m=1 if c.get("sched", "plain") == "slowSetRemote" else 0,
                           evs=[c.get("reneg", "none"), mux_a, mux_b, co_a, co_b,
                                "T" if la_a else "F", "T" if la_b else "F"]))
            continue
        if comp == "life" and ev == "end":
            out.append(rec(t="end", b1=bool(e.get("signal_ok")), b2=bool(e.get("connected")),
                           b3=bool(e.get("released")), n=int(e.get("connect_ms", 0))))
            continue
        if comp == "life" and ev in ("closing", "done"):
            closing = True
            continue
        if closing:
            continue
        inst = e.get("inst", "")
        if comp == "pc":
            if ev == "sig":
                out.append(rec(t="sig", inst=inst, site=e["site"], sig=e["sig"]))
            elif ev == "start_transport":
                out.append(rec(t=ev, inst=inst, site=e["site"]))
            elif ev == "dtls_connected":
                out.append(rec(t=ev, inst=inst, site=e["site"]))
            elif ev == "srtp_keys":
                out.append(rec(t=ev, inst=inst, site=e.get("kind", ""), x=str(e["tx"]), reason=str(e["rx"]),
                               sig=str(e.get("profile", ""))))
            elif ev == "pub":
                site = SITE_MAP.get(e["site"], e["site"])
                out.append(rec(t=ev, inst=inst, site=site, peer=e["peer"], reason=e["reason"]))
        elif comp == "app" and ev == "dc_open":
            out.append(rec(t=ev, inst=inst))
        elif comp == "life" and ev == "dc_delivery":
            out.append(rec(t=ev, inst=inst, b1=bool(e["ok"]), b2=bool(e["ok"]), n=int(e.get("round", 1))))
        elif comp == "life" and ev == "rtp_delivery":
            out.append(rec(t=ev, inst=inst, site=e["kind"], b1=bool(e["ok"]), b2=bool(e["intact"]), n=int(e.get("round", 1))))
        elif comp == "life" and ev == "reneg":
            out.append(rec(t="reneg", inst=e.get("by", ""), b1=bool(e["ok"]), b2=bool(e["still_connected"])))
    return out


def flatten_stack(events, mode):
    """events of ONE run (C17 or C10) -> the layer events of both endpoints for Trace_Stack."""
    out = []
    seen = set()
    done = False
    for e in events:
        comp, ev, inst = e.get("comp"), e.get("ev"), e.get("inst", "")
        if comp == "life" and ev == "reset":
            out.append(rec(t="reset", site=mode, n=int(e["scenario"].get("id", 0))))
            continue
        if comp == "life" and ev == "end":
            out.append(rec(t="end"))
            continue
        if comp == "life" and ev == "done":
            done = True
        if done or inst not in ("A", "B"):
            continue

        def once(t, **kw):
            if (t, inst, kw.get("site", "")) not in seen:
                seen.add((t, inst, kw.get("site", "")))
                out.append(rec(t=t, inst=inst, **kw))
        if comp == "pc":
            if ev == "ice_seen" and e.get("site") in ("Connected", "Completed"):
                once("ice_up")
            elif ev == "start_transport":
                out.append(rec(t="start", inst=inst, site=e.get("site", "")))
            elif ev == "srtp_keys":
                out.append(rec(t="keys", inst=inst, site=e.get("kind", "")))
            elif ev == "pub" and SITE_MAP.get(e["site"], e["site"]) == "conn.connected":
                out.append(rec(t="pc_conn", inst=inst))
        elif comp == "dtls":
            if ev in ("flight", "hs"):
                once("dtls_act")
            elif ev == "keys":
                once("dtls_keyed")
        elif comp == "sctp":
            if ev in ("tx", "rx"):
                once("sctp_act", site=str(e.get("st", "")))
            elif ev == "open":
                out.append(rec(t="chan_open", inst=inst))
        elif comp == "app" and ev == "dc_open":
            out.append(rec(t="app_open", inst=inst))
        elif comp == "rtp" and ev == "gate":
            once("gate", site=str(e.get("outcome", "")))
    return out


def stack_pass(ck, vlib, runs, mode_of, tag):
    """Cross-layer ordering (Stack.tla) on the hook events of all layers of the recorded runs: one TLC run of
    Trace_Stack; broken EXT.* rules are drift, never violations. Returns the number of runs checked."""
    import os
    import re
    flat = []
    for r in runs:
        flat += flatten_stack(r, mode_of(r))
    if not flat:
        return 0
    tpath = os.path.join(ck.dir, f"stack_{tag}.ndjson")
    sink = os.path.join(ck.dir, f"stack_{tag}.verdicts")
    vlib.write_ndjson(tpath, flat)
    res = vlib.tlc("Trace_Stack", "Trace_Stack.cfg", workers=1, timeout=900, seed_arg=False,
                   tags=("VERDICT",), sinks={"VERDICT": sink},
                   env={"TRACE": tpath, "JAVA_TOOL_OPTIONS": "-Xmx3g -Xss1g"}, tag=f"trace_stack_{tag}", heap="3g")
    ck.add_tlc(res, f"trace-stack:{len(runs)}")
    m = None
    for line in res["raw_tail"]:
        mm = re.match(r'^<<"TRACE", "(\w+)", (\d+)', line)
        if mm:
            m = mm
    if m is None:
        raise vlib.ToolError("stack trace validation did not finish")
    if m.group(1) != "accepted":
        ck.drift.append({"stack": "unexplained", "record": flat[int(m.group(2)) - 1]})
    n = 0
    for v in vlib.read_ndjson(sink):
        n += 1
        for b in v["viol"]:
            ck.drift.append({"stack": list(b), "scenario_id": v["id"]})
    return n


_LOCKS = []


def exclusive(vlib, pid):
    """Two runs of the same check on the same tree share one output directory (recordings, verdict sinks): the
    second one waits for the first (advisory file lock, released when the process ends). Taken before the check's
    clock starts."""
    import fcntl
    f = open(os.path.join(vlib.outdir(pid), ".lock"), "w")
    fcntl.flock(f, fcntl.LOCK_EX)
    _LOCKS.append(f)
