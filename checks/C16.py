"""C16 - STUN/TURN messages and ICE priorities conform to the RFCs (level: exploration).

StunWire.tla holds the wire-format algebra (attribute layout, the two length fix-ups, MI/FP order, TURN
required attributes, ChannelData framing, candidate line print/parse, pair-priority algebra). TLC checks the
design claims on every element of a boundary-oriented domain and prints each element; the harness
(harness/src/bin/stunwire.rs) concretises the abstract parts from VERIF_SEED and compares the real
encoder / decoder / TURN builders / candidate printer+parser / IceCandidatePair::priority with the model's
predictions and with the independent `stun` crate (both directions)."""
import json
import os
import subprocess
import vlib

PID = "C16"
NSHARDS = 4
PARTS = ["msg", "dec", "turn", "cand", "prio", "sets", "uri"]

CFG = {
    "quick": dict(StrLens="{0, 1, 2, 3, 4, 5, 763}", DataLens="{0, 1, 2, 3, 4, 1200}", SweepMax=763, MaxAttrs=2, NRanks=12),
    "thorough": dict(StrLens="{0, 1, 2, 3, 5, 763}", DataLens="{0, 1, 3, 1200}", SweepMax=763, MaxAttrs=3, NRanks=12),
}

# which deviation of the design each part's self test switches on, and the claim that must then fail
SELFTEST = [("msg", "NoLenFixupBeforeMI"), ("turn", "NoTcpPadding"), ("cand", "ParseDropsRaddr"),
            ("prio", "ControlledSwapsRoles"), ("sets", "ControlledSwapsRoles")]


def write_cfg(path, part, c, emit, deviations="{}"):
    with open(path, "w") as f:
        f.write(f"""SPECIFICATION Spec
CONSTANTS
  Part = "{part}"
  StrLens = {c['StrLens']}
  DataLens = {c['DataLens']}
  SweepMax = {c['SweepMax']}
  MaxAttrs = {c['MaxAttrs']}
  NRanks = {c['NRanks']}
  Deviations = {deviations}
INVARIANTS ItemOK {'EmitItem' if emit else ''}
CHECK_DEADLOCK FALSE
""")


def sig_of(r):
    rec = r.get("case", {}).get("rec", {})
    s = {"sub": {"msg": "stun", "dec": "stun"}.get(r.get("part"), r.get("part")), "rule": r.get("rule")}
    if r.get("part") == "turn":
        s["tr"] = rec.get("tr")
        s["op"] = rec.get("op")
    if r.get("part") == "cand":
        s["typ"] = rec.get("cand", {}).get("typ")
        s["fields"] = r.get("detail", {}).get("fields")
    if r.get("part") in ("msg", "dec"):
        s["key"] = rec.get("key")
        s["fp"] = rec.get("fp")
    return s


def run_harness(ck, items_path, label, shards=NSHARDS):
    procs, outs = [], []
    for i in range(shards):
        out = os.path.join(ck.dir, f"replay_{label}_{i}.ndjson")
        outs.append(out)
        env = dict(os.environ)
        env["VERIF_SEED"] = str(vlib.seed())
        procs.append(subprocess.Popen([vlib.bin_path("stunwire"), items_path, out, f"{i}/{shards}"], cwd=vlib.ROOT, env=env,
                                      stdout=subprocess.DEVNULL, stderr=subprocess.PIPE, text=True))
    for p in procs:
        try:
            _, err = p.communicate(timeout=3000)
        except subprocess.TimeoutExpired:
            for q in procs:
                q.kill()
            raise vlib.ToolError("stunwire harness timed out")
        if p.returncode != 0:
            raise vlib.ToolError(f"stunwire harness failed rc={p.returncode}: {err[-2000:]}")
    stats = {}
    for out in outs:
        for r in vlib.read_ndjson(out):
            t = r.get("type")
            if t == "summary":
                for k, v in r["stats"].items():
                    stats[k] = stats.get(k, 0) + v
            elif t == "divergence":
                if r.get("rule") == "ModelVsReference":
                    # the model's own layout prediction disagrees with the reference implementation: my model is wrong
                    raise vlib.ToolError(f"model vs reference implementation: {json.dumps(r)[:600]}")
                ck.divergence(sig_of(r), {k: r[k] for k in ("part", "rule", "detail", "case")})
            elif t == "drift":
                ck.drift.append(r.get("detail"))
            elif t == "toolerror":
                raise vlib.ToolError(f"stunwire: {r.get('detail')}")
        os.remove(out)
    return stats


def run(tier):
    ck = vlib.Check(PID, tier, level="exploration")
    vlib.build_harness(["stunwire"])
    consts = CFG[tier]
    items = os.path.join(ck.dir, f"items_{tier}.ndjson")
    open(items, "w").close()
    emitted = 0
    finished = True
    for part in PARTS:
        cfg = os.path.join(vlib.SPEC, f"MC_StunWire_{tier}_{part}.gen.cfg")
        write_cfg(cfg, part, consts, emit=True)
        sink = os.path.join(ck.dir, f"items_{tier}_{part}.ndjson")
        try:
            res = vlib.tlc("MC_StunWire", os.path.basename(cfg), tags=("ITEM",), sinks={"ITEM": sink},
                           timeout=3000 if tier == "thorough" else 600, tag=f"MC_StunWire_{tier}_{part}",
                           heap="12g" if tier == "thorough" else "6g")
        finally:
            try:
                os.remove(cfg)
            except OSError:
                pass
        vlib.tlc_ok(res, part)
        ck.add_tlc(res, part)
        finished = finished and res["finished"]
        emitted += res["counts"]["ITEM"]
        with open(items, "a") as out, open(sink) as f:
            for i, line in enumerate(f):
                out.write(line)
                if i in (7, 1501) and len(ck.cov["samples"]) < 10:
                    ck.cov["samples"].append(json.loads(line))
        os.remove(sink)
    stats = run_harness(ck, items, tier)
    os.remove(items)
    done = stats.get("items", 0)
    wire = agent_wire(ck, tier)
    ck.notes.append({"agent_wire": wire})
    cred = turn_credentials(ck, tier)
    ck.notes.append({"turn_credentials": cred})
    ck.notes.append({"harness": stats})
    ck.cov["traces_validated_against_impl"] = done
    ck.cov["evaluations"] = stats.get("encoded", 0) + stats.get("decoded", 0) + stats.get("turn_items", 0) + \
        3 * stats.get("cand_items", 0) + 2 * stats.get("prio_items", 0) + stats.get("sets_items", 0) + \
        wire["messages_checked"] + cred["messages_checked"]
    ck.cov["distinct_nontrivial"] = done - stats.get("cand_out_of_domain", 0)
    ck.cov["exhaustive"] = False      # exploration over a model-defined boundary product, not all byte strings
    ck.cov["rule"] = ("every element of the model-defined domain (message shapes: 28 method x class types x attribute "
                      "sequences x key kind x FINGERPRINT, every value length 0..763 of every variable-length attribute; "
                      "decode-only attributes; TURN operations x transport x credential lengths x address family; candidate "
                      "tuples; priority rank quadruples; small pair sets) is executed once; non-trivial = inside the domain "
                      "the SDP/RFC grammar can express")
    ck.assumptions += [
        "level = exploration: TLC decides the layout and priority algebra over the enumerated boundary product; attribute "
        "contents, addresses, keys and transaction ids are drawn from VERIF_SEED (one draw per element)",
        "the `stun` crate 0.17.2 is the independent implementation (decode, MESSAGE-INTEGRITY, FINGERPRINT, XOR addresses, "
        "long-term key); the model's layout is additionally checked against its bytes (ModelVsReference = tool error)",
        "candidate priorities are taken from the RFC 8445 range 0..2^31-1 (rank table in harness/src/bin/stunwire.rs)",
        "TURN client messages are captured by a harness fake server on loopback UDP/TCP; ICE server URI parsing is not covered",
        "TURN credential state: Turn.tla behaviours (Allocate challenge, 438 same / new realm, 401 new realm, two refresh rounds, "
        "permission, channel binding, Send / ChannelData, deallocation) on the real client against the fake TURN server; every "
        "authenticated message must verify under MD5(user : its own REALM attribute : password) (rule LongTermKeyMatchesRealm)",
        "agent wire messages: the connectivity checks, nominations, keepalives and Binding responses a real IceTransport "
        "sends in every edge of a small IceAgent model (udp + tcp sockets) are verified with the reference crate: MI under the "
        "right short-term key, FINGERPRINT, USERNAME, PRIORITY, role attributes, XOR-MAPPED-ADDRESS",
        f"TLC finished every sub-domain: {finished}; elements emitted {emitted}, executed {done}",
    ]
    if emitted != done:
        raise vlib.ToolError(f"harness executed {done} of {emitted} emitted elements")
    ck.finish()


def agent_wire(ck, tier):
    """System level: every STUN message a real ICE agent puts on the wire (connectivity checks, nominations,
    keepalives, Binding responses) in TLC-generated IceAgent scenarios is checked with the reference crate."""
    import C06
    vlib.build_harness(["iceagent"])
    consts = dict(Socks='{"udp", "tcp"}', Lites="{FALSE}", UserAlpha='{"ok", "missing"}', MiAlpha='{"ok", "missing"}',
                  FpAlpha='{"ok"}' if tier == "quick" else '{"ok", "none"}')
    cfg = os.path.join(vlib.SPEC, f"MC_IceAgent_C16_{tier}.gen.cfg")
    C06.write_cfg(cfg, consts, emit=True)
    edges = os.path.join(ck.dir, f"agent_edges_{tier}.ndjson")
    try:
        res = vlib.tlc("MC_IceAgent", os.path.basename(cfg), tags=("EDGE",), sinks={"EDGE": edges}, timeout=600,
                       tag=f"MC_IceAgent_C16_{tier}")
    finally:
        try:
            os.remove(cfg)
        except OSError:
            pass
    vlib.tlc_ok(res, "agent wire scenarios")
    ck.add_tlc(res, "IceAgent scenarios for agent wire messages")
    procs, outs = [], []
    n = 8
    for i in range(n):
        out = os.path.join(ck.dir, f"agent_wire_{i}.ndjson")
        outs.append(out)
        env = dict(os.environ)
        env["VERIF_SEED"] = str(vlib.seed())
        procs.append(subprocess.Popen([vlib.bin_path("iceagent"), edges, out, f"{i}/{n}"], cwd=vlib.ROOT, env=env,
                                      stdout=subprocess.DEVNULL, stderr=subprocess.PIPE, text=True))
    for p in procs:
        try:
            _, err = p.communicate(timeout=1800)
        except subprocess.TimeoutExpired:
            for q in procs:
                q.kill()
            raise vlib.ToolError("iceagent (agent wire) timed out")
        if p.returncode != 0:
            raise vlib.ToolError(f"iceagent (agent wire) failed rc={p.returncode}: {err[-2000:]}")
    checked = 0
    for out in outs:
        for r in vlib.read_ndjson(out):
            if r.get("type") == "summary":
                checked += r["stats"].get("wire_checked", 0)
            elif r.get("type") == "wire":
                ck.divergence({"sub": "agent", "rule": "AgentWire"}, {"rule": "AgentWire", "detail": r.get("detail")})
            elif r.get("type") == "toolerror":
                raise vlib.ToolError(f"iceagent (agent wire): {r.get('detail')}")
        os.remove(out)
    os.remove(edges)
    return {"scenarios": res["counts"]["EDGE"], "messages_checked": checked}


def turn_credentials(ck, tier):
    """The TURN credential STATE (realm, nonce, long-term key) across exchanges: Turn.tla (the engine of EXT05) with
    the reactions ok / 401 with a new realm (the Allocate challenge) / 438 same realm / 438 new realm / 401 new realm,
    two refresh rounds, on a real IceTransport + TurnClient against the fake TURN server. Judged here under C16:
    rule LongTermKeyMatchesRealm - the MESSAGE-INTEGRITY of every authenticated message the client sends verifies
    under MD5(user : REALM attribute of that message : password) (checked per message, independently of the model) -
    and rule TurnCredentialState - REALM / NONCE / key generation are the ones the model predicts."""
    import EXT05
    vlib.build_harness(["turnclient"])
    consts = dict(Transports='{"udp"}', Lifetimes="{600}", MaxRefresh=2 if tier == "quick" else 3, MaxDrops=0,
                  Reacts='{"ok", "e401r", "e438", "e438r"}' if tier == "quick" else '{"ok", "e401", "e401r", "e438", "e438r"}',
                  AllocLen=2, RefreshFaults=1 if tier == "quick" else 2)
    cfg = os.path.join(vlib.SPEC, f"MC_Turn_C16_{tier}.gen.cfg")
    EXT05.write_turn_cfg(cfg, consts, emit=True)
    runs = os.path.join(ck.dir, f"turn_cred_runs_{tier}.ndjson")
    try:
        res = vlib.tlc("MC_Turn", os.path.basename(cfg), tags=("RUN",), sinks={"RUN": runs}, timeout=1800,
                       tag=f"MC_Turn_C16_{tier}")
    finally:
        try:
            os.remove(cfg)
        except OSError:
            pass
    vlib.tlc_ok(res, "TURN credential state")
    ck.add_tlc(res, "Turn.tla credential-state behaviours")
    os.environ["VERIF_TURN_QUIET_MS"] = "2"
    try:
        rows = EXT05.run_shards("turnclient", runs, ck, "turn_cred", shards=16)
    finally:
        os.environ.pop("VERIF_TURN_QUIET_MS", None)
    os.remove(runs)
    stats = {}
    for r in rows:
        t = r.get("type")
        if t == "summary":
            for k, v in r["stats"].items():
                stats[k] = stats.get(k, 0) + v
        elif t == "wire":
            ck.divergence({"sub": "turn", "rule": "LongTermKeyMatchesRealm", "method": r["detail"].get("method")},
                          {"rule": "LongTermKeyMatchesRealm", "detail": r["detail"], "script": r.get("script"),
                           "case": {"part": "turncred", "rec": r.get("case")}})
        elif t == "drift":
            d = r["why"].get("detail", "")
            if any(w in d for w in ("MESSAGE-INTEGRITY", "REALM", "NONCE", "USERNAME", "FINGERPRINT", "credentials")):
                ck.divergence({"sub": "turn", "rule": "TurnCredentialState", "op": r["why"].get("op")},
                              {"rule": "TurnCredentialState", "detail": r["why"],
                               "script": [(s["op"], s["reacts"]) for s in r["case"]["steps"]],
                               "case": {"part": "turncred", "rec": r["case"]}})
            else:
                ck.drift.append({"what": "TURN client leaves the as-built model (see EXT05)", "why": r["why"]})
    if stats.get("scenarios", 0) != res["counts"]["RUN"]:
        raise vlib.ToolError(f"turnclient executed {stats.get('scenarios', 0)} of {res['counts']['RUN']} behaviours")
    return {"behaviours": res["counts"]["RUN"], "messages_checked": stats.get("wire_checked", 0),
            "conforming": stats.get("conforming", 0)}


def replay(path):
    ck = vlib.Check(PID, "quick", level="exploration")
    vlib.build_harness(["stunwire"])
    with open(path) as f:
        rec = json.load(f)
    ip = os.path.join(ck.dir, "replay_one.ndjson")
    case = rec["record"]["case"]
    if case.get("part") == "turncred":
        import EXT05
        vlib.build_harness(["turnclient"])
        vlib.write_ndjson(ip, [case["rec"]])
        rows = EXT05.run_shards("turnclient", ip, ck, "one", shards=1)
        for r in rows:
            if r.get("type") == "wire":
                ck.divergence({"sub": "turn", "rule": "LongTermKeyMatchesRealm", "method": r["detail"].get("method")},
                              {"rule": "LongTermKeyMatchesRealm", "detail": r["detail"], "case": case})
        ck.cov.update(states=1, transitions=1, traces_validated_against_impl=1, samples=[case])
        ck.finish()
    vlib.write_ndjson(ip, [case])
    stats = run_harness(ck, ip, "one", shards=1)
    ck.cov.update(states=1, transitions=1, traces_validated_against_impl=stats.get("items", 0), samples=[rec["record"]["case"]])
    ck.finish()


def selftest():
    ok = True
    for part, dev in SELFTEST:
        cfg = os.path.join(vlib.SPEC, f"MC_StunWire_selftest_{part}.gen.cfg")
        write_cfg(cfg, part, CFG["quick"], emit=False, deviations='{"%s"}' % dev)
        res = vlib.tlc("MC_StunWire", os.path.basename(cfg), timeout=600, tag=f"MC_StunWire_selftest_{part}")
        os.remove(cfg)
        hit = any("ItemOK" in e for e in res["errors"]) or any("ItemOK" in l for l in res["raw_tail"])
        print(f"selftest: part={part} Deviations={{{dev}}} violates ItemOK: {hit}")
        ok = ok and hit
    # TURN credential state: a key that is not recomputed when the realm changes must break KeyMatchesRealm
    import EXT05
    cfg = os.path.join(vlib.SPEC, "MC_Turn_C16_selftest.gen.cfg")
    EXT05.write_turn_cfg(cfg, dict(Transports='{"udp"}', Lifetimes="{600}", MaxRefresh=1, MaxDrops=0,
                                   Reacts='{"ok", "e401r", "e438r"}', AllocLen=2, RefreshFaults=1), emit=False,
                         deviations='{"StaleKeyOnRealmChange"}')
    res = vlib.tlc("MC_Turn", os.path.basename(cfg), timeout=600, tag="MC_Turn_C16_selftest")
    os.remove(cfg)
    hit = any("KeyMatchesRealm" in e for e in res["errors"]) or any("KeyMatchesRealm" in l for l in res["raw_tail"])
    print(f"selftest: Turn Deviations={{StaleKeyOnRealmChange}} violates KeyMatchesRealm: {hit}")
    ok = ok and hit
    raise SystemExit(0 if ok else 2)
