"""C05 - SRTP rejects forged packets and a rejection never disturbs receiver state.

Srtp.tla with the forger (bit flips per region, truncation, extension, rewritten sequence number / SRTCP index,
wrong key, new SSRC), idle time and the context table is model-checked by TLC (Rejected, ForgeUnchanged,
AcceptanceStable); every (state, action) edge is executed on a real SrtpSession; after each forged packet the
receiver state is read through the H4 accessor and a copy of the session is offered every genuine packet."""
import _srtp
import vlib

PID = "C05"

RULE = ("every (state, action) edge of the bounded Srtp models with the forger (scaled 4-bit space with forged sequence "
        "numbers at +1/+half-1/+half/+half+1/-1 of the receiver's highest; real 16-bit boundary alphabet; context-table "
        "model with 2 genuine + 2 forged SSRCs, idle ticks and a high-water mark mapped onto the real 32 by authenticated "
        "filler streams) is replayed on real SrtpSessions for the four profiles, RTP and SRTCP; each model forgery is "
        "concretised to several (thorough: all) bit positions / cut points of its class; after every forged packet: "
        "rejected, per-SSRC (ROC, highest seq, SRTCP index) unchanged, and every genuine packet (sent so far + each "
        "stream's next) accepted by a copy of the session before the forgery is accepted by a copy after it. "
        "non-trivial = the action is a forgery, a tick, or a delivery that follows a forgery")
ASSUME = [
    "cryptographic primitives trusted; 32-bit tags are guessable with probability 2^-32 per forgery (not explored)",
    "forged packets are derived from genuine ones by the listed classes or produced under a different key; no adaptive search",
    "sequence space scaled to 4 bits plus exact 16-bit boundary alphabet; histories up to the listed length",
    "idle time is produced by back-dating last_used through the H4 hook (61 s per tick), not by waiting",
]


def run(tier):
    _srtp.run(PID, tier, RULE, ASSUME, bits="all" if tier == "thorough" else "few")


def replay(path):
    _srtp.replay_one(PID, path)


def selftest():
    _srtp.selftest(PID)
