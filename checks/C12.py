"""C12 - data-channel messages keep their boundaries, channel and delivery mode; Open exactly once before the
first message, Close at most once; in-band channels appear with the parameters they were created with.

Same engine as C01 (SctpAssoc): the model is checked for several channel types (ordered / unordered /
partially reliable with FORWARD-TSN), the budgeted model generates the fault schedules, the mini-stack runs
them on workloads that vary channel types (negotiated and in-band), message sizes 0..256 KiB, channel counts
1..16 and 1..8 concurrent sender tasks per side, and TLC replays every recorded run through Trace_SctpAssoc
with Props = {"C12"} (rules DeliveredIsSubmitted, NoDuplicate, OrderedInOrder, OpenOnce, OpenBeforeMessage,
CloseAtMostOnce, DcepParams, AnnouncedOnce).
"""
import json
import os
import random

import sctp_common as sc
import vlib

PID = "C12"
CK = None
WRAP_A = 0xFFFFFFFD
WRAP_B = 0xFFFFFFFE
SIZES = [0, 1, 1172, 1173, 3000]


def design_checks(ck, tier):
    runs = [("set/A12", dict(mode="set", msgs="MsgsA12")),
            ("set/both", dict(mode="set", msgs="MsgsBoth", init_a="{14}", init_b="{0, 14}")),
            ("set/ord+unord", dict(mode="set", chans="Chans2", msgs="MsgsTwoCh", init_a="{14}", init_b="{0}")),
            ("set/rel+pr", dict(mode="set", chans="ChansPR", msgs="MsgsTwoCh3", init_a="{14}", init_b="{0}", win=3)),
            ("set/rel+pr-unord", dict(mode="set", chans="ChansPRU", msgs="MsgsTwoCh3", init_a="{14}", init_b="{0}", win=3))]
    if tier == "thorough":
        runs += [("set/twoch-4msg-win3", dict(mode="set", chans="Chans2", msgs="MsgsTwoCh", init_a="{0, 14}",
                                               init_b="{0, 14}", win=3)),
                 ("set/pr-4msg", dict(mode="set", chans="ChansPR", msgs="MsgsTwoCh", init_a="{14}", init_b="{0}", win=3))]
    for label, kw in runs:
        res = sc.tlc_mc(ck, label.replace("/", "_").replace("+", "_"), timeout=1800 if tier == "thorough" else 900, **kw)
        vlib.tlc_ok(res, label)
        ck.add_tlc(res, label)


def generate(ck, tier):
    p1 = os.path.join(ck.dir, f"sched_b1_{tier}_{os.getpid()}.ndjson")
    res = sc.tlc_mc(ck, "fifo_b1", mode="fifo", budget=1, fair=True, msgs="MsgsA12", init_a="{14}", init_b="{0}",
                    sched_sink=p1, timeout=600)
    vlib.tlc_ok(res, "fifo budget 1")
    ck.add_tlc(res, "fifo/budget1 (single faults)")
    singles = sc.schedules_from(p1)
    p2 = os.path.join(ck.dir, f"sched_b2_{tier}_{os.getpid()}.ndjson")
    res = sc.tlc_mc(ck, "fifo_b2", mode="fifo", budget=2, fair=False,
                    msgs="MsgsA12" if tier == "thorough" else "MsgsA2", init_a="{14}", init_b="{0}",
                    sched_sink=p2, timeout=2400 if tier == "thorough" else 600)
    vlib.tlc_ok(res, "fifo budget 2")
    ck.add_tlc(res, "fifo/budget2 (pairs)")
    pairs = [s for s in sc.schedules_from(p2) if len(s) == 2]
    # a 3-fragment message on a partially reliable channel (ordered and unordered) next to a reliable one:
    # single faults incl. the persistent loss of one fragment (every transmission), FORWARD-TSN faults
    frag = []
    for chans in (("ChansPRU",) if tier == "quick" else ("ChansPRU", "ChansPR")):
        p3 = os.path.join(ck.dir, f"sched_{chans}_{tier}_{os.getpid()}.ndjson")
        sc.tlc_mc_split(ck, "fifo_" + chans, f"fifo/{chans} 3-fragment PR message", p3, mode="fifo", budget=1, chans=chans,
                        msgs="MsgsPR3", init_a="{14}", init_b="{0}", win=4, timeout=900 if tier == "quick" else 3000)
        frag.append((chans == "ChansPR", sc.schedules_from(p3)))
    if tier == "quick":
        # the schedules are content addresses: the ordered variant of the channel runs the same ones
        frag.append((True, frag[0][1]))
    return singles, pairs, frag, res["finished"]


def wl_fragments(rng, ordered, k):
    """MsgsPR3 of the model: a 3-fragment message on the partially reliable channel 2, a message on the reliable
    channel 1, another message on channel 2; then the phase-2 probes (relative TSNs as in the model)"""
    kind = [dict(mr=0), dict(mr=1), dict(mr=2), dict(life=60), dict(life=300)][k % 5]
    chans = [sc.chan(1), sc.chan(2, ordered=ordered, **kind)]
    msgs = [{"from": "A", "sid": 2, "len": rng.choice([2345, 3000, 3516])}, {"from": "A", "sid": 1, "len": rng.choice([1, 100, 1172])},
            {"from": "A", "sid": 2, "len": rng.choice([1, 300, 1172])},
            {"from": "A", "sid": 1, "len": 10, "phase": 2}, {"from": "A", "sid": 2, "len": 11, "phase": 2},
            {"from": "B", "sid": 1, "len": 10, "phase": 2}]
    return chans, msgs


def stretch(faults, stride):
    """concretise model ordinals for workloads with many packets: the n-th DATA / SACK of the model stands
    for the (1 + (n-1)*stride)-th packet of the run"""
    out = []
    for f in faults:
        g = dict(f)
        if g["k"] == "SACK":
            g["o"] = 1 + (g["o"] - 1) * stride
        if g["k"] == "DATA" and "t" in g:
            g["t"] = g["t"] * stride
        if g.get("ak") == "SACK" and g["ao"] > 0:
            g["ao"] = 1 + (g["ao"] - 1) * stride
        if g.get("ak") == "DATA" and "at" in g:
            g["at"] = g["at"] * stride
        out.append(g)
    return out


def wl_types(rng):
    """every channel type, negotiated and in-band from either side"""
    chans = [sc.chan(1), sc.chan(2, ordered=False),
             sc.chan(3, mr=0), sc.chan(4, ordered=False, mr=2), sc.chan(5, life=100),
             sc.chan(6, negotiated=False, creator="A", label="chat", protocol="p1"),
             sc.chan(7, ordered=False, mr=1, negotiated=False, creator="B", label="ctl", protocol=""),
             sc.chan(8, life=30, negotiated=False, creator="A", label="télé", protocol="x/y"),
             sc.chan(9, ordered=False, negotiated=False, creator="B", label="", protocol="bulk")]
    msgs = []
    for c in chans:
        for k in range(3):
            msgs.append({"from": "A", "sid": c["sid"], "len": rng.choice(SIZES), "task": 0})
        for k in range(2):
            msgs.append({"from": "B", "sid": c["sid"], "len": rng.choice(SIZES), "task": 0})
    rng.shuffle(msgs)
    msgs += [{"from": "A", "sid": 1, "len": 10, "phase": 2}, {"from": "B", "sid": 1, "len": 10, "phase": 2}]
    return chans, msgs


def wl_sizes(rng, big):
    chans = [sc.chan(1), sc.chan(2, ordered=False)]
    sizes = [0, 1, 1172, 1173, 65536, 0, 2344, 2345] + ([262144] if big else [20000])
    rng.shuffle(sizes)
    msgs = [{"from": "A", "sid": 1 + (i % 2), "len": n} for i, n in enumerate(sizes)]
    msgs += [{"from": "B", "sid": 1, "len": 65536 if big else 5000, "task": 1}, {"from": "B", "sid": 2, "len": 0, "task": 1}]
    msgs += [{"from": "A", "sid": 1, "len": 1, "phase": 2}, {"from": "B", "sid": 1, "len": 0, "phase": 2}]
    return chans, msgs


def wl_concurrent(rng, nch, ntasks, per_task):
    kinds = [dict(), dict(ordered=False), dict(mr=0), dict(ordered=False, mr=1), dict(life=200), dict(ordered=False, life=50)]
    chans = []
    for i in range(nch):
        k = dict(kinds[i % len(kinds)])
        if i % 4 == 3:
            k.update(negotiated=False, creator="AB"[i % 2], label=f"c{i}", protocol=f"proto{i % 3}")
        chans.append(sc.chan(i + 1, **k))
    msgs = []
    for side in "AB":
        for t in range(ntasks):
            for _ in range(per_task):
                msgs.append({"from": side, "sid": rng.randrange(nch) + 1, "len": rng.choice(SIZES + [5000]), "task": t})
    msgs += [{"from": "A", "sid": 1, "len": 3, "phase": 2}, {"from": "B", "sid": 1, "len": 3, "phase": 2}]
    return chans, msgs


def build_scenarios(singles, pairs, frag, tier):
    rng = random.Random(vlib.seed() * 7919 + 12)
    scen = []
    # the model's own workload under every single fault (one negotiated reliable ordered channel, both directions)
    scen.append(sc.scenario("clean", [], [sc.chan(1)], sc.basic_workload(rng, both=True)))
    for i, f in enumerate(singles):
        scen.append(sc.scenario(f"s{i:03d}", f, [sc.chan(1)], sc.basic_workload(rng, both=True),
                                cfg={"init_tsn_a": WRAP_A, "init_tsn_b": WRAP_B} if i % 2 else None))
    npair = len(pairs) if tier == "thorough" else 60
    for i, f in enumerate(sc.sample(pairs, npair, vlib.seed() + 1)):
        scen.append(sc.scenario(f"p{i:04d}", f, [sc.chan(1)], sc.basic_workload(rng, both=True)))
    # channel types x sizes x concurrency, each under clean network and under sampled faults
    n_t, n_s, n_c = (40, 10, 12) if tier == "quick" else (len(singles), 60, 80)
    for i, f in enumerate([[]] + sc.sample(singles, n_t, vlib.seed() + 2) + sc.sample(pairs, n_t // 2, vlib.seed() + 3)):
        chans, msgs = wl_types(rng)
        wrap = {"init_tsn_a": WRAP_A, "init_tsn_b": WRAP_B} if i % 2 else None
        s = sc.scenario(f"t{i:03d}", stretch(f, rng.choice([1, 2, 5])), chans, msgs, cfg=wrap)
        if i % 3 == 0:
            s["close_chans"] = [{"side": "A", "sid": 2}, {"side": "B", "sid": 6}]
        scen.append(s)
    k = 0
    for ordered, scheds in frag:
        if tier == "quick":
            # all faults on the fragments of the 3-fragment message and on FORWARD-TSN (persistent loss
            # included), a seeded sample of the rest
            key = [f for f in scheds if any(x["kind"] == "dropall" or x["k"] == "FWD" or (x["k"] == "DATA" and x.get("t", 9) <= 2 and x["kind"] in ("drop", "hold")) for x in f)]
            rest = [f for f in scheds if f not in key]
            scheds = sc.sample(key, 70, vlib.seed() + 20) + sc.sample(rest, 15, vlib.seed() + 21)
        for f in ([[]] + scheds):
            # thorough: each schedule on two of the five reliability settings (rexmit 0/1/2, lifetime 60/300 ms)
            for rep_ in range(1 if tier == "quick" else 2):
                chans, msgs = wl_fragments(rng, ordered, k)
                scen.append(sc.scenario(f"f{k:04d}", f, chans, msgs, deadline_ms=4000,
                                        cfg={"init_tsn_a": WRAP_A - 1, "init_tsn_b": 7000} if k % 7 == 0 else None))
                k += 1
    # INIT collision (both ends send INIT): Open exactly once on either side
    scen += sc.collision_scenarios(sc.gen_collision_schedules(CK, tier), rng, limit=12 if tier == "quick" else 200,
                                   seed=vlib.seed() + 61, idle_ms=0)
    # one side closes a channel (stream reset) while the peer is still sending on it: Close at most once at
    # both ends, nothing delivered after Close, the other channels unaffected
    for i, f in enumerate([[]] + sc.sample(singles, 5 if tier == "quick" else 40, vlib.seed() + 6)):
        closer, sender = ("A", "B") if i % 2 == 0 else ("B", "A")
        chans = [sc.chan(1), sc.chan(2, ordered=(i % 3 != 2)), sc.chan(3, ordered=False)]
        msgs = [{"from": sender, "sid": 2, "len": 1100, "task": 1} for _ in range(60)]
        msgs += [{"from": sender, "sid": 1, "len": rng.choice(SIZES), "task": 2} for _ in range(4)]
        msgs += [{"from": closer, "sid": 3, "len": rng.choice(SIZES), "task": 3} for _ in range(4)]
        msgs += [{"from": "A", "sid": 1, "len": 10, "phase": 2}, {"from": "B", "sid": 1, "len": 10, "phase": 2}]
        s = sc.scenario(f"k{i:03d}", stretch(f, rng.choice([1, 5, 20])), chans, msgs)
        s["close_mid"] = [{"side": closer, "sid": 2, "after_recv": rng.choice([1, 3, 10])}]
        scen.append(s)
    # K sender tasks in parallel on ONE channel, multi-fragment messages (3..40 fragments): every message arrives
    # whole (content hash), its fragments occupy consecutive TSNs
    kinds = [dict(), dict(ordered=False), dict(ordered=False, mr=5), dict(mr=5), dict(ordered=False, life=2000)]
    for i in range(10 if tier == "quick" else 60):
        ktasks = [2, 4, 8][i % 3]
        chans = [sc.chan(1, **kinds[i % len(kinds)]), sc.chan(2)]
        msgs = []
        for side in ("A", "B") if i % 2 else ("A",):
            for t in range(ktasks):
                for _ in range(5):
                    msgs.append({"from": side, "sid": 1, "len": rng.choice([2345, 3516, 5000, 12000, 20000, 46880]), "task": t})
        msgs += [{"from": "A", "sid": 2, "len": 10, "phase": 2}, {"from": "B", "sid": 2, "len": 10, "phase": 2}]
        scen.append(sc.scenario(f"j{i:03d}", [], chans, msgs, deadline_ms=8000, cfg={"max_buffered": 4 << 20}))
    for i, f in enumerate([[]] + sc.sample(singles, n_s, vlib.seed() + 4)):
        chans, msgs = wl_sizes(rng, big=(tier == "thorough" or i % 4 == 0))
        scen.append(sc.scenario(f"z{i:03d}", stretch(f, rng.choice([1, 7, 20])), chans, msgs,
                                cfg={"init_tsn_a": WRAP_A - 40} if i % 2 else None))
    for i, f in enumerate([[]] + sc.sample(singles, n_c, vlib.seed() + 5)):
        nch = rng.choice([1, 2, 5, 16])
        nt = rng.choice([1, 2, 4, 8])
        chans, msgs = wl_concurrent(rng, nch, nt, 4 if tier == "quick" else 10)
        scen.append(sc.scenario(f"c{i:03d}", stretch(f, rng.choice([1, 3, 9])), chans, msgs))
    return scen


def ssn_wrap_scenario():
    """65536 + 10 messages on one ordered channel: the 16-bit stream sequence number wraps"""
    msgs = [{"from": "A", "sid": 1, "len": 8 if i % 1000 else 1500} for i in range(65546)]
    msgs += [{"from": "A", "sid": 1, "len": 3, "phase": 2}, {"from": "B", "sid": 1, "len": 3, "phase": 2}]
    return sc.scenario("ssnwrap", [{"dir": "A", "k": "DATA", "o": 30000, "kind": "drop", "ak": "NONE", "ao": 0},
                                   {"dir": "A", "k": "DATA", "o": 65000, "kind": "hold", "ak": "DATA", "ao": 65020}],
                       [sc.chan(1)], msgs, deadline_ms=120000, cfg={"max_buffered": 1 << 20})


def id_allocation_tier(ck, tier):
    """PeerConnection level: DcIds.tla (stream-id allocation of create_data_channel; invariants UniqueLive,
    NoSharedStream) generates every program of 4 application calls (negotiated channels in every id order, in-band
    creates on either side, dropped handles, connect). Stage 1 replays ALL of them on unconnected PeerConnections
    (UniqueLive after every call); stage 2 replays a seeded sample on a real connected pair (DcepParams,
    DeliveredOnItsChannel)."""
    sink = os.path.join(ck.dir, f"progs_{tier}_{os.getpid()}.ndjson")
    res = vlib.tlc("MC_DcIds", "MC_DcIds.cfg", tags=("PROG",), sinks={"PROG": sink}, timeout=900, workers=1,
                   tag=f"MC_DcIds_{tier}_{os.getpid()}")
    vlib.tlc_ok(res, "DcIds model")
    ck.add_tlc(res, "DcIds (ids 0..5, 4 calls): UniqueLive, NoSharedStream")
    progs = {}
    for r in vlib.read_ndjson(sink):
        progs.setdefault(json.dumps(r["ops"], sort_keys=True), r)
    progs = [progs[k] for k in sorted(progs)]
    vlib.write_ndjson(sink, progs)
    out1 = os.path.join(ck.dir, f"ids_{tier}_{os.getpid()}.ndjson")
    p = vlib.run_bin("dcids", ["ids", sink, out1], timeout=900)
    if p.returncode != 0:
        raise vlib.ToolError(f"dcids ids failed: {p.stderr[-1500:]}")
    rows = vlib.read_ndjson(out1)
    # stage 2: programs with at least one in-band create, seeded sample
    inb = [r for r in progs if any(o["op"] == "inband" for o in r["ops"])]
    chosen = sc.sample(inb, 64 if tier == "quick" else 1500, vlib.seed() + 70)
    sink2 = os.path.join(ck.dir, f"progs2_{tier}_{os.getpid()}.ndjson")
    vlib.write_ndjson(sink2, chosen)
    import subprocess
    nproc = 8
    procs = []
    for i in range(nproc):
        o = os.path.join(ck.dir, f"pairids_{tier}_{os.getpid()}_{i}.ndjson")
        procs.append((subprocess.Popen([vlib.bin_path("dcids"), "pair", sink2, o, f"{i}/{nproc}"], cwd=vlib.ROOT,
                                       stdout=subprocess.PIPE, stderr=subprocess.PIPE, text=True), o))
    for pr, o in procs:
        try:
            _, err = pr.communicate(timeout=1200)
        except subprocess.TimeoutExpired:
            pr.kill()
            raise vlib.ToolError("dcids pair timed out")
        if pr.returncode != 0:
            raise vlib.ToolError(f"dcids pair failed: {err[-1500:]}")
        rows += vlib.read_ndjson(o)
        os.remove(o)
    nprog = sum(r.get("programs", 0) for r in rows if r.get("type") == "summary")
    skipped = sum(1 for r in rows if r.get("type") == "skipped")
    for r in rows:
        if r.get("type") == "divergence":
            sig = {"sub": "dcids", "rule": r["rule"], "stage": r["stage"],
                   "inband_by_both_before_connect": bool(r.get("inband_by_both_before_connect", False))}
            ck.divergence(sig, {"rule": r["rule"], "detail": {k: v for k, v in r.items() if k not in ("program", "type")},
                                "program": r["program"]})
    for f in (sink, sink2, out1):
        try:
            os.remove(f)
        except OSError:
            pass
    ck.notes.append(f"id allocation tier: {len(progs)} programs replayed without network, {len(chosen)} on a connected pair "
                    f"({skipped} skipped: not connectable)")
    return nprog


def run(tier):
    ck = vlib.Check(PID, tier)
    vlib.build_harness(["sctp", "dcids"])
    # the PeerConnection-level tier is independent of the association runs: it goes on in a thread meanwhile
    import threading
    idbox = {}

    def id_job():
        try:
            idbox["n"] = id_allocation_tier(ck, tier)
        except Exception as e:
            idbox["err"] = e
    id_thread = threading.Thread(target=id_job)
    id_thread.start()
    design_checks(ck, tier)
    global CK
    CK = ck
    singles, pairs, frag, gen_finished = generate(ck, tier)
    scen = build_scenarios(singles, pairs, frag, tier)
    if tier == "thorough":
        scen.append(ssn_wrap_scenario())
    by_id = sc.run_scenarios(ck, scen, "main", nproc=8 if tier == "quick" else 12, timeout=3000)
    bad, ext, nev, res = sc.validate(ck, PID, scen, by_id, "main", timeout=2400)
    ck.add_tlc(res, "trace validation")
    id_thread.join()
    if "err" in idbox:
        raise idbox["err"]
    n_id_programs = idbox["n"]
    sc.record_results(ck, PID, scen, by_id, bad, ext)
    applied = set()
    for s in scen:
        end = [e for e in by_id[s["id"]] if e["comp"] == "app" and e["ev"] == "end"][-1]
        if end["faults_applied"] > 0 or len(s["chans"]) > 1:
            applied.add(json.dumps([s["faults"], [c["sid"] for c in s["chans"]], len(s["msgs"])], sort_keys=True))
    ck.cov["traces_validated_against_impl"] = len(scen) + n_id_programs
    ck.cov["evaluations"] = nev
    ck.cov["distinct_nontrivial"] = len(applied)
    ck.cov["rule"] = ("one recorded run of the two real endpoints per scenario = TLC-generated fault schedule x workload "
                      "(model workload under every single fault and sampled pairs; every channel type negotiated / "
                      "in-band; sizes 0..256 KiB; 1..16 channels x 1..8 sender tasks), replayed by TLC through "
                      "Trace_SctpAssoc with the C12 rules on the application's recv stream; non-trivial = distinct "
                      "(schedule, workload) with a fault that hit or more than one channel")
    ck.cov["samples"] = [{"scenario": s["id"], "faults": s["faults"], "chans": s["chans"], "nmsgs": len(s["msgs"])}
                         for s in scen[1:3] + [x for x in scen if x["id"].startswith("t")][:2]]
    ck.cov["exhaustive"] = False
    ck.assumptions += [
        "model bounds: TSN mod 16, SSN mod 8, window 2-3, 2 channels (ordered+unordered, reliable+partially reliable), "
        "3-4 messages of 1-2 fragments; unbounded loss/dup/delay/reorder (set network)",
        "runs: sampled combinations (seeded by VERIF_SEED) of single / double faults and workloads; not exhaustive",
        "concurrent senders on one channel: submission order is the order in which send_data_raw serialises the calls "
        "(enqueue hook under the channel's send lock)",
        "partially reliable / unordered channels are allowed to drop or reorder; no completeness is required of them",
        "trusted: TLC, the proxy's record decryption and SCTP reader, the event hooks (add-only, cfg rustrtc_verif)",
    ]
    sc.cleanup(ck)
    ck.finish()


def replay(path):
    ck = vlib.Check(PID, "quick")
    vlib.build_harness(["sctp"])
    with open(path) as f:
        rec = json.load(f)
    s = rec["record"]["scenario"]
    by_id = sc.run_scenarios(ck, [s], "replay", nproc=1)
    bad, ext, nev, res = sc.validate(ck, PID, [s], by_id, "replay")
    sc.record_results(ck, PID, [s], by_id, bad, ext)
    ck.cov.update(states=res["distinct"], transitions=res["generated"], traces_validated_against_impl=1,
                  evaluations=nev, samples=[{"scenario": s["id"], "faults": s["faults"]}])
    ck.finish()


def selftest():
    """(i) deviation-on models violate OpenOnce / OpenBeforeMessage; (ii) corrupted recordings are rejected"""
    ck = vlib.Check(PID + "-selftest", "quick")
    vlib.build_harness(["sctp"])
    r1 = sc.tlc_mc(ck, "dev1", mode="set", deviations='{"SetupOverwrite"}', invariants=["OpenOnce"], properties=[],
                   constraint="DevBound", timeout=300)
    ok1 = any("OpenOnce" in e for e in r1["errors"])
    r2 = sc.tlc_mc(ck, "dev2", mode="set", msgs="MsgsBoth", deviations='{"DataBeforeEstablished"}',
                   invariants=["OpenBeforeMessage"], properties=[], timeout=300)
    ok2 = any("OpenBeforeMessage" in e for e in r2["errors"])
    r3 = sc.tlc_mc(ck, "dev3", mode="fifo", budget=1, chans="ChansPRU", msgs="MsgsPR3", init_a="{14}", init_b="{0}", win=4,
                   deviations='{"PartialAbandon"}', invariants=["OneToOne"], properties=[], timeout=600)
    ok3 = any("OneToOne" in e for e in r3["errors"])
    print("selftest: PartialAbandon model violates OneToOne:", ok3)
    ok2 = ok2 and ok3
    print("selftest: SetupOverwrite model violates OpenOnce:", ok1)
    print("selftest: DataBeforeEstablished model violates OpenBeforeMessage:", ok2)
    cfgp = os.path.join(vlib.SPEC, f"MC_DcIds_selftest.{os.getpid()}.gen.cfg")
    with open(os.path.join(vlib.SPEC, "MC_DcIds.cfg")) as f:
        txt = f.read().replace("Deviations = {}", 'Deviations = {"SinglePassSearch"}').replace(" EmitProgram", "")
    with open(cfgp, "w") as f:
        f.write(txt)
    r4 = vlib.tlc("MC_DcIds", os.path.basename(cfgp), timeout=300, workers=4, tag=f"MC_DcIds_selftest_{os.getpid()}")
    os.remove(cfgp)
    ok4 = any("UniqueLive" in e for e in r4["errors"])
    print("selftest: SinglePassSearch id allocation violates UniqueLive:", ok4)
    ok2 = ok2 and ok4
    rng = random.Random(1)
    chans, msgs = wl_types(rng)
    s = sc.scenario("types", [], chans, msgs)
    by = sc.run_scenarios(ck, [s], "selftest", nproc=1)
    ev = by["types"]

    def first(pred):
        return next(i for i, e in enumerate(ev) if pred(e))
    i_open = first(lambda e: e["comp"] == "app" and e["ev"] == "recv" and e.get("kind") == "open")
    i_msg = first(lambda e: e["comp"] == "app" and e["ev"] == "recv" and e.get("kind") == "msg" and e.get("len", 0) > 0)
    i_new = first(lambda e: e["comp"] == "app" and e["ev"] == "newchan")
    i_close = first(lambda e: e["comp"] == "app" and e["ev"] == "recv" and e.get("kind") == "close")
    i_mid = first(lambda e: e["comp"] == "sctp" and e["ev"] == "tx" and any(c["type"] == 0 and c["flags"] & 3 == 0 for c in e["chunks"]))

    def foreign_fragment(l):
        l = list(l)
        e = json.loads(json.dumps(l[i_mid]))
        for c in e["chunks"]:
            if c["type"] == 0 and c["flags"] & 3 == 0:
                c["sid"] = (c["sid"] % 9) + 1
                break
        l[i_mid] = e
        return l
    muts = {
        "interleaved-fragment": (foreign_fragment, "FragmentsContiguous"),
        "second-open": (lambda l: l[:i_open + 1] + [dict(l[i_open])] + l[i_open + 1:], "OpenOnce"),
        "duplicate-message": (lambda l: l[:i_msg + 1] + [dict(l[i_msg])] + l[i_msg + 1:], "NoDuplicate"),
        "altered-message": (lambda l: l[:i_msg] + [dict(l[i_msg], h=l[i_msg]["h"] ^ 1)] + l[i_msg + 1:], "DeliveredIsSubmitted"),
        "wrong-channel": (lambda l: l[:i_msg] + [dict(l[i_msg], sid=(l[i_msg]["sid"] % 9) + 1)] + l[i_msg + 1:], "DeliveredIsSubmitted"),
        "label-changed": (lambda l: l[:i_new] + [dict(l[i_new], label=l[i_new]["label"] + "x")] + l[i_new + 1:], "DcepParams"),
        "second-close": (lambda l: l[:i_close + 1] + [dict(l[i_close])] + l[i_close + 1:], "CloseAtMostOnce"),
    }
    oks = []
    for name, (mut, rule) in muts.items():
        bad, _, _, _ = sc.validate(ck, PID, [s], {"types": mut(list(ev))}, "selftest_" + name)
        ok = any(b["rule"] == rule for b in bad)
        oks.append(ok)
        print(f"selftest: corrupted trace ({name}) rejected by {rule}:", ok)
    bad, _, _, _ = sc.validate(ck, PID, [s], by, "selftest_clean")
    print("selftest: unmodified trace accepted:", not bad, [b["rule"] for b in bad][:5])
    raise SystemExit(0 if ok1 and ok2 and all(oks) and not bad else 2)
