"""EXT05 - spec growth beyond the listed properties: the rest of the ICE agent's behaviour.
All rules are EXT: whatever this check finds is printed as DRIFT and the exit code stays 0.

Part 1 (Turn.tla): the TURN client - Allocate (401 -> long-term key -> success), refresh rounds with one
stale-nonce retry, CreatePermission / ChannelBind per peer, Send vs ChannelData, deallocation on stop - against a
fake TURN server (UDP and TCP) whose reactions TLC chooses. The model is "as built" and deterministic: the harness
(harness/src/bin/turnclient.rs) checks that the real IceTransport sends exactly the predicted requests, each
verified with the `stun` crate; steps on which the as-built behaviour breaks an intended (RFC) rule carry a flag,
and a flagged behaviour that the real client follows exactly is a finding (witnessed on the real code).
Part 2 (IceTimers.tla): see below."""
import json
import os
import subprocess
import vlib

PID = "EXT05"
NSHARDS = 8

TURN_CFGS = {
    "quick": [
        ("core", dict(Transports='{"udp", "tcp"}', Lifetimes="{600}", MaxRefresh=1, MaxDrops=0,
                      Reacts='{"ok", "e401", "e438", "err", "badtx"}', RefreshFaults=1), None),
        ("loss", dict(Transports='{"udp", "tcp"}', Lifetimes="{600}", MaxRefresh=1, MaxDrops=1,
                      Reacts='{"ok", "e401", "e438r", "drop"}', RefreshFaults=1), None),
        ("idle", dict(Transports='{"udp"}', Lifetimes="{10}", MaxRefresh=0, MaxDrops=0,
                      Reacts='{"ok", "e401"}', RefreshFaults=0), None),
        ("sim", dict(Transports='{"udp", "tcp"}', Lifetimes="{600}", MaxRefresh=3, MaxDrops=1,
                     Reacts='{"ok", "e401", "e401r", "e438", "e438r", "err", "drop", "badtx"}', RefreshFaults=3), (40, 8)),
    ],
    "thorough": [
        ("core", dict(Transports='{"udp", "tcp"}', Lifetimes="{600}", MaxRefresh=1, MaxDrops=0,
                      Reacts='{"ok", "e401", "e438", "e438r", "err", "badtx"}', RefreshFaults=3), None),
        ("loss", dict(Transports='{"udp", "tcp"}', Lifetimes="{600}", MaxRefresh=1, MaxDrops=2,
                      Reacts='{"ok", "e401", "e438r", "err", "drop"}', RefreshFaults=2), None),
        ("idle", dict(Transports='{"udp"}', Lifetimes="{10, 20}", MaxRefresh=1, MaxDrops=0,
                      Reacts='{"ok", "e401"}', RefreshFaults=0), None),
        ("sim", dict(Transports='{"udp", "tcp"}', Lifetimes="{600}", MaxRefresh=4, MaxDrops=2,
                     Reacts='{"ok", "e401", "e438", "e438r", "err", "drop", "badtx"}', RefreshFaults=3), (1500, 10)),
    ],
}

# what each flag of the as-built model means (printed with the DRIFT line)
FLAG_TEXT = {
    "RequestRetransmission": "a TURN request or its answer lost on UDP is never retransmitted (RFC 5389 7.2.1): Allocate gives up "
                             "after one 3 s wait (no relay candidate), CreatePermission fails the connectivity check, Refresh waits 5 s",
    "StaleNonceRetryInChecks": "a 401/438 (stale nonce) answer to the CreatePermission of a connectivity check fails the pair; only the "
                               "refresh round retries with the new nonce",
    "RelayCandidateTransport": "a relay candidate allocated over TCP to the TURN server is labelled transport 'tcp' (it relays UDP): it never "
                               "pairs with the peer's UDP candidates - no check is made through it",
    "RefreshBeforeExpiry": "the lifetime the server grants is ignored: refresh runs on a fixed 25 s period, an allocation granted less expires",
    "AllocateTerminates": "TURN over TCP: no timeout on the server's answer - a silent server keeps gathering from ever completing",
    "AllocationWithoutCredentials": "an Allocate accepted without the 401 challenge leaves the client without a credentials context: no "
                                    "permission, refresh or deallocation can be built afterwards",
    "DeallocateOnStop": "stop sends no Refresh(LIFETIME=0) when there is no credentials context",
    "RefreshWhileNotConnected": "refresh rounds only run in Connected/Disconnected: an allocation made while gathering is not refreshed during Checking",
}


def write_turn_cfg(path, c, emit, deviations="{}"):
    with open(path, "w") as f:
        f.write(f"""SPECIFICATION Spec
CONSTANTS
  Transports = {c['Transports']}
  Lifetimes = {c['Lifetimes']}
  MaxRefresh = {c['MaxRefresh']}
  MaxDrops = {c['MaxDrops']}
  Reacts = {c['Reacts']}
  AllocLen = {c.get('AllocLen', 3)}
  RefreshFaults = {c['RefreshFaults']}
  Deviations = {deviations}
INVARIANTS BoundedRetries FreshNonce PermissionFirst KeyMatchesRealm {'EmitRun' if emit else ''}
CHECK_DEADLOCK FALSE
""")


def run_shards(binary, inp, ck, label, shards=NSHARDS, timeout=3000):
    procs, outs = [], []
    for i in range(shards):
        out = os.path.join(ck.dir, f"replay_{label}_{i}.ndjson")
        outs.append(out)
        env = dict(os.environ)
        env["VERIF_SEED"] = str(vlib.seed())
        procs.append(subprocess.Popen([vlib.bin_path(binary), inp, out, f"{i}/{shards}"], cwd=vlib.ROOT, env=env,
                                      stdout=subprocess.DEVNULL, stderr=subprocess.PIPE, text=True))
    for p in procs:
        try:
            _, err = p.communicate(timeout=timeout)
        except subprocess.TimeoutExpired:
            for q in procs:
                q.kill()
            raise vlib.ToolError(f"{binary} timed out")
        if p.returncode != 0:
            raise vlib.ToolError(f"{binary} failed rc={p.returncode}: {err[-2000:]}")
    rows = []
    for out in outs:
        rows += vlib.read_ndjson(out)
        os.remove(out)
    return rows


def turn_part(ck, tier, findings, nonconf):
    total = 0
    for label, consts, sim in TURN_CFGS[tier]:
        cfg = os.path.join(vlib.SPEC, f"MC_Turn_{tier}_{label}.gen.cfg")
        write_turn_cfg(cfg, consts, emit=True)
        runs = os.path.join(ck.dir, f"turn_runs_{tier}_{label}.ndjson")
        try:
            kw = dict(simulate=sim[0], depth=sim[1]) if sim else {}
            res = vlib.tlc("MC_Turn", os.path.basename(cfg), tags=("RUN",), sinks={"RUN": runs}, timeout=1800,
                           tag=f"MC_Turn_{tier}_{label}", **kw)
        finally:
            try:
                os.remove(cfg)
            except OSError:
                pass
        vlib.tlc_ok(res, "Turn/" + label)
        ck.add_tlc(res, "Turn/" + label)
        rows = run_shards("turnclient", runs, ck, f"turn_{label}")
        stats = {}
        for r in rows:
            if r["type"] == "summary":
                for k, v in r["stats"].items():
                    stats[k] = stats.get(k, 0) + v
            elif r["type"] == "finding":
                for fl in r["flags"]:
                    e = findings.setdefault(fl, {"count": 0, "witness": None})
                    e["count"] += 1
                    if e["witness"] is None or len(json.dumps(r["witness"])) < len(json.dumps(e["witness"])):
                        e["witness"] = r["witness"]
            elif r["type"] == "drift":
                nonconf.append({"engine": "Turn", "label": label, "why": r["why"],
                                "steps": [(s["op"], s["reacts"], s["out"]) for s in r["case"]["steps"]], "tr": r["case"]["tr"]})
        ck.notes.append({"engine": "Turn", "label": label, "behaviours": res["counts"]["RUN"], "harness": stats})
        total += stats.get("scenarios", 0)
        if len(ck.cov["samples"]) < 4:
            with open(runs) as f:
                ck.cov["samples"].append(json.loads(f.readline()))
        os.remove(runs)
    return total


def run(tier):
    ck = vlib.Check(PID, tier)
    vlib.build_harness(["turnclient", "icetimers"])
    findings, nonconf = {}, []
    total = turn_part(ck, tier, findings, nonconf)
    try:
        import EXT05_timers
        total += EXT05_timers.timers_part(ck, tier, findings, nonconf, run_shards)
    except ImportError:
        pass
    # everything here is beyond the listed properties: DRIFT only
    for fl, e in sorted(findings.items()):
        wit = e["witness"]
        if "tr" in wit:
            short = {"tr": wit["tr"], "steps": [(s["op"], s.get("reacts"), s.get("out")) for s in wit["steps"]]}
        else:
            short = wit
        rec = {"finding": fl, "what": FLAG_TEXT.get(fl, ""), "behaviours": e["count"], "witness": short}
        print(f"DRIFT: property={PID} (finding on the real code, beyond the listed properties) {json.dumps(rec)[:700]}")
        ck.notes.append({"finding": rec, "full_witness": e["witness"]})
    for d in nonconf[:8]:
        print(f"DRIFT: property={PID} (real code leaves the as-built model) {json.dumps(d)[:600]}")
    ck.notes.append({"nonconforming": nonconf[:50], "nonconforming_count": len(nonconf)})
    ck.cov["traces_validated_against_impl"] = total
    ck.cov["evaluations"] = total
    ck.cov["distinct_nontrivial"] = total
    ck.cov["exhaustive"] = False
    ck.cov["rule"] = ("every maximal behaviour of the bounded as-built models is executed on a real IceTransport; a behaviour "
                      "counts when the real client followed the model on every step")
    ck.assumptions += [
        "all rules are EXT (spec growth): findings and non-conformance are reported as DRIFT, never as VIOLATION",
        "the fake TURN server implements RFC 5766 framing and long-term credentials with the stun crate 0.17.2; relayed "
        "addresses are fictitious (all traffic flows through the fake server on loopback)",
        "real-time: a dropped Allocate costs the client's fixed 3 s timeout, a dropped Refresh 5 s, a dropped "
        "CreatePermission/ChannelBind the configured stun_timeout (600 ms here); the idle step waits lifetime + 2 s",
    ]
    ck.drift = []          # printed above, one line per distinct finding
    ck.notes.append({"drift_lines": len(findings) + min(len(nonconf), 8)})
    ck.finish()


def selftest():
    ok = True
    for dev, inv in (("RetryForever", "BoundedRetries"), ("StaleNonceReuse", "FreshNonce"), ("DataBeforePermission", "PermissionFirst"),
                     ("StaleKeyOnRealmChange", "KeyMatchesRealm")):
        cfg = os.path.join(vlib.SPEC, "MC_Turn_selftest.gen.cfg")
        write_turn_cfg(cfg, dict(TURN_CFGS["quick"][0][1], Reacts='{"ok", "e401", "e438", "e438r", "err", "badtx"}', AllocLen=2),
                       emit=False, deviations='{"%s"}' % dev)
        res = vlib.tlc("MC_Turn", os.path.basename(cfg), timeout=600, tag="MC_Turn_selftest")
        os.remove(cfg)
        hit = any(inv in e for e in res["errors"]) or any(inv in l for l in res["raw_tail"])
        print(f"selftest: Turn Deviations={{{dev}}} violates {inv}: {hit}")
        ok = ok and hit
    raise SystemExit(0 if ok else 2)
