"""EXT02 - H.264 depacketizer (src/media/depacketizer.rs, RFC 6184): single NAL / STAP-A / FU-A reassembly with loss,
duplicates and timestamp changes, drop counting. Specification growth beyond the listed properties: every finding
is DRIFT (exit 0); nothing here can print VIOLATION.

spec/H264Depack.tla + MC_H264Depack.tla, harness/src/bin/h264depack.rs. See checks/_ext.py for the common shape."""
import json
import os

import _ext
import vlib

PID = "EXT02"
DEVS = ["OrphanNotCounted", "SupersededNotCounted", "StapTailNotCounted"]
PINNED = "{" + ", ".join(f'"{d}"' for d in DEVS) + "}"

TIERS = {
    "quick": dict(contract_len=3, contract_fu_len=6, maxlen=7, sim=600, simdepth=16),
    "thorough": dict(contract_len=4, contract_fu_len=7, maxlen=9, sim=2000, simdepth=24),
}


def cfg_text(maxlen, deviations, emit, kinds="MC_Kinds", view=True, inv="Bounded FrameSound DropsCounted", lean=False):
    return f"""SPECIFICATION Spec
CONSTANTS
  MaxLen = {maxlen}
  Deviations = {deviations}
  Kinds <- {kinds}
  Lean = {'TRUE' if lean else 'FALSE'}
{'VIEW view' if view else ''}
INVARIANTS {inv}
ACTION_CONSTRAINT {'EmitEdge' if emit else 'NoEmit'}
CHECK_DEADLOCK FALSE
"""


def run(tier):
    ck = vlib.Check(PID, tier)
    vlib.build_harness(["h264depack"])
    t = TIERS[tier]
    big = 3000 if tier == "thorough" else 600
    # 1. contract on the intended design: every history (no VIEW: the rules speak about the history)
    res = _ext.tlc_plain("MC_H264Depack", cfg_text(t["contract_len"], "{}", False, view=False),
                         f"MC_H264Depack_{PID}_{tier}_contract", timeout=big, workers=8)
    vlib.tlc_ok(res, "contract, Deviations = {}")
    ck.add_tlc(res, f"contract/all kinds/len{t['contract_len']}")
    res = _ext.tlc_plain("MC_H264Depack", cfg_text(t["contract_fu_len"], "{}", False, lean=True, view=False),
                         f"MC_H264Depack_{PID}_{tier}_contract_fu", timeout=big, workers=8)
    vlib.tlc_ok(res, "contract (FU kinds), Deviations = {}")
    ck.add_tlc(res, f"contract/lean FU alphabet/len{t['contract_fu_len']}")
    # 2. each departure of the pinned code on the model, with a printed witness edge
    findings, witness_files = {}, []
    for dev in DEVS:
        wf = os.path.join(ck.dir, f"witness_{tier}_{dev}.ndjson")
        cfgp = os.path.join(vlib.SPEC, f"MC_H264Depack_{PID}_{tier}_dev.gen.cfg")
        _ext.write(cfgp, cfg_text(4, '{"%s"}' % dev, False, view=False, inv="Bounded FrameSound W_DropsCounted"))
        r = vlib.tlc("MC_H264Depack", os.path.basename(cfgp), tags=("EDGE",), sinks={"EDGE": wf}, timeout=600, heap="4g",
                     tag=f"MC_H264Depack_{PID}_dev")
        os.remove(cfgp)
        findings[dev] = _ext.violated(r) or ["(no contract rule violated within the bound)"]
        rows = vlib.read_ndjson(wf)[:20]
        for w in rows:
            w["nocompare"] = True
            w["dev"] = dev
        vlib.write_ndjson(wf, rows)
        witness_files.append(wf)
    ck.cov["model_deviation_findings"] = findings
    # 3. pinned model: transition cover + simulation
    e1 = os.path.join(ck.dir, f"edges_{tier}_bfs.ndjson")
    e2 = os.path.join(ck.dir, f"edges_{tier}_sim.ndjson")
    r1 = _ext.tlc_edges("MC_H264Depack", cfg_text(t["maxlen"], PINNED, True, inv="Bounded"), f"MC_H264Depack_{PID}_{tier}_bfs", e1,
                        timeout=big)
    ck.add_tlc(r1, "G-edge/pinned")
    r2 = _ext.tlc_edges("MC_H264Depack", cfg_text(t["simdepth"], PINNED, True, inv="Bounded"), f"MC_H264Depack_{PID}_{tier}_sim",
                        e2, simulate=t["sim"], depth=t["simdepth"] + 1, timeout=big)
    ck.add_tlc(r2, "G-sim/pinned")
    allp = os.path.join(ck.dir, f"edges_{tier}.ndjson")
    n = _ext.dedup_edges([e1, e2] + witness_files, allp)
    for p in [e1, e2] + witness_files:
        os.remove(p)
    # 4. replay
    rows, summ = _ext.replay_sharded("h264depack", allp, ck.dir, tier, shards=12, timeout=big)
    with open(allp) as f:
        for i, line in enumerate(f):
            if i in (5, 2000):
                ck.cov["samples"].append(json.loads(line))
            if i > 2000:
                break
    os.remove(allp)
    first = _ext.rows_to_drift(ck, rows)
    ck.cov.update(traces_validated_against_impl=summ.get("edges", 0), evaluations=summ.get("edges", 0),
                  distinct_nontrivial=n, field_checks=summ.get("checks", 0),
                  drift_signatures=summ.get("per_signature", {}),
                  exhaustive=bool(r1["finished"]) and summ.get("edges", 0) == n)
    ck.cov["rule"] = ("every (state, packet) edge of the bounded pinned depacketizer model (G-edge, VIEW on reassembly "
                      "position) and every step of random deep packet sequences (G-sim) is replayed on a fresh "
                      "H264Depacketizer; returned samples (bytes, timestamp, last flag, sequence number) and drop counter "
                      "compared with the model (class replay); FrameSound and DropsCounted judged on the real output "
                      "(class contract)")
    ck.assumptions += [
        "EXT: beyond the listed properties; findings are DRIFT only",
        "packet alphabet: 12 kinds x sequence delta {0 dup, 1, 2 one lost} x timestamp step x marker; sequence numbers "
        "start at 65534; payload bytes derived from the packet's position in the history",
        "contract runs enumerate every history up to the stated length without a VIEW",
    ]
    for (typ, field), r in first.items():
        if typ == "panic":
            ck.notes.append(f"PANIC in code under test: {str(r.get('observed'))[:200]}")
    ck.finish()


def replay(path):
    raise vlib.ToolError("EXT checks record no violation files")
