"""Shared machinery of the SCTP checks C01 / C12 / C13 (engine SctpAssoc).

Pipeline (every step's inputs are TLC outputs; every verdict is TLC's):
  1. TLC on spec/MC_SctpAssoc: design check of the contract (monotone-set network: unbounded loss / dup /
     delay / reorder) and, on the budgeted fifo network, liveness + the generator of fault schedules.
  2. harness/src/bin/sctp.rs runs each schedule on the mini-stack (two real endpoints + decrypting proxy)
     and records hooks + wire view + application events.
  3. the recorded events are normalised (relative TSNs, channel / tag indices - no judgement) and
     replayed by TLC through spec/Trace_SctpAssoc with Props = {<property>}; the rules it reports broken
     become divergence records.
"""
import json
import os
import random
import re
import subprocess
import time

import vlib

BASE = 1000
FAR = 1 << 20
KINDS = {"INIT": 1, "IACK": 2, "CECHO": 10, "CACK": 11, "DATA": 0, "SACK": 3, "FWD": 192, "GSACK": 253, "ZSACK": 254}

DEFAULT_CFG = {"rto_initial_ms": 50, "rto_min_ms": 50, "rto_max_ms": 200, "max_hold_ms": 300}
DEADLINE_MS = 4000  # 20 x rto_max
MAX_CONFIRM = 6     # liveness verdicts re-run per check run


# --------------------------------------------------------------------------------------------- TLC side

def write_mc_cfg(path, *, chans="Chans1", msgs="MsgsA12", init_a="{0, 14}", init_b="{0, 14}", mode="set",
                 budget=0, deviations="{}", invariants=None, properties=None, emit=False, fair=False,
                 max_rtx=3, win=2, constraint=None, props='{"C01", "C12", "C13"}', rwnd=9, delay_sack="FALSE",
                 action_constraint=None, rtx_burst=9, initiators='{"A"}'):
    inv = invariants if invariants is not None else ["TypeOK", "PrefixDelivery", "OneToOne", "OpenOnce",
                                                     "OpenBeforeMessage", "ConsecutiveTsn", "WindowRespected", "NewDataWithinWindow"]
    prop = properties if properties is not None else (["SetupIdempotent"] + (["EventuallyDelivered", "T1Stops"] if fair else []))
    with open(path, "w") as f:
        f.write(f"""SPECIFICATION {'FairSpec' if fair else 'Spec'}
CONSTANTS
  M = 16
  S = 8
  Chans <- {chans}
  Msgs <- {msgs}
  InitTsnA = {init_a}
  InitTsnB = {init_b}
  MaxRtx = {max_rtx}
  MaxT1 = 2
  Win = {win}
  Initiators = {initiators}
  RtxBurst = {rtx_burst}
  Rwnd = {rwnd}
  DelaySack = {delay_sack}
  Deviations = {deviations}
  NetMode = "{mode}"
  Budget = {budget}
  Props = {props}
""")
        if inv:
            f.write("INVARIANTS " + " ".join(inv) + "\n")
        if prop:
            f.write("PROPERTIES " + " ".join(prop) + "\n")
        if constraint:
            f.write(f"CONSTRAINT {constraint}\n")
        ac = action_constraint or ('EmitSched' if emit else 'NoEmit')
        f.write(f"ACTION_CONSTRAINT {ac}\nCHECK_DEADLOCK FALSE\n")


def tlc_mc(ck, label, timeout=600, workers=8, sched_sink=None, simulate=None, depth=None, **kw):
    # process id in the name: two runs of the same check (e.g. quick and thorough) must not share cfg files
    cfg = os.path.join(vlib.SPEC, f"MC_SctpAssoc_{ck.pid}_{label}.{os.getpid()}.gen.cfg")
    write_mc_cfg(cfg, emit=sched_sink is not None, **kw)
    try:
        if sched_sink:
            res = vlib.tlc("MC_SctpAssoc", os.path.basename(cfg), tags=("SCHED",), sinks={"SCHED": sched_sink},
                           timeout=timeout, workers=1, tag=f"MC_SctpAssoc_{ck.pid}_{label}", simulate=simulate, depth=depth)
        else:
            res = vlib.tlc("MC_SctpAssoc", os.path.basename(cfg), timeout=timeout, workers=workers,
                           tag=f"MC_SctpAssoc_{ck.pid}_{label}")
    finally:
        try:
            os.remove(cfg)
        except OSError:
            pass
    return res


def concrete(f):
    """TLC's FaultRec -> the address the proxy uses: a SACK that carried gap blocks in the model is addressed
    as the n-th gap-SACK of its direction (robust against the number of plain SACKs before it)"""
    g = dict(f)
    if g.get("k") == "SACK" and g.get("z", 0) > 0:
        g["k"], g["o"] = "ZSACK", g["z"]
    elif g.get("k") == "SACK" and g.get("g", 0) > 0:
        g["k"], g["o"] = "GSACK", g["g"]
    if g.get("ak") == "SACK" and g.get("at", 0) > 0:
        pass  # released after the first SACK that acknowledges at least `at` chunks
    elif g.get("ak") == "SACK" and g.get("ag", 0) > 0:
        g["ak"], g["ao"] = "GSACK", g["ag"]
    return g


def tlc_mc_split(ck, label, what, sched_sink, timeout=900, **kw):
    """generator + liveness of one budgeted model as two concurrent TLC runs: the single-worker emission run
    checks the invariants, a multi-worker run checks the temporal property (about half the wall time of one
    single-worker run doing both)"""
    import threading
    box = {}

    def live():
        try:
            box["live"] = tlc_mc(ck, label + "_live", timeout=timeout, workers=6, fair=True, **kw)
        except Exception as e:  # re-raised in the caller's thread
            box["err"] = e
    t = threading.Thread(target=live)
    t.start()
    res = tlc_mc(ck, label, timeout=timeout, sched_sink=sched_sink, fair=False, **kw)
    t.join()
    if "err" in box:
        raise box["err"]
    vlib.tlc_ok(res, what + " (emission)")
    vlib.tlc_ok(box["live"], what + " (liveness)")
    ck.add_tlc(res, what + " - invariants + schedule emission")
    ck.add_tlc(box["live"], what + " - liveness")
    return res


def in_parallel(jobs):
    """run independent generator jobs (each one or two TLC processes) in threads; returns {name: result}"""
    import threading
    box, errs, ts = {}, [], []
    for name, fn in jobs.items():
        def run(name=name, fn=fn):
            try:
                box[name] = fn()
            except Exception as e:
                errs.append(e)
        t = threading.Thread(target=run)
        t.start()
        ts.append(t)
    for t in ts:
        t.join()
    if errs:
        raise errs[0]
    return box


def schedules_from(path):
    """distinct fault histories printed by the generator, shortest first, deterministic order"""
    seen = {}
    with open(path) as f:
        for line in f:
            line = line.strip()
            if not line:
                continue
            fl = [concrete(f) for f in json.loads(line)]
            key = json.dumps(fl, sort_keys=True)
            seen.setdefault(key, fl)
    out = [seen[k] for k in sorted(seen)]
    out.sort(key=lambda fl: (len(fl), json.dumps(fl, sort_keys=True)))
    return out


# --------------------------------------------------------------------------------------------- scenarios

ONE_FRAG = [0, 1, 100, 1172]
TWO_FRAG = [1173, 2000, 2344]
THREE_FRAG = [2345, 3000, 3516]


def size_for(nfrag, rng):
    return rng.choice({1: ONE_FRAG, 2: TWO_FRAG, 3: THREE_FRAG}[nfrag])


def chan(sid, ordered=True, mr=None, life=None, negotiated=True, creator="A", label="", protocol=""):
    c = {"sid": sid, "ordered": ordered, "negotiated": negotiated, "creator": creator, "label": label,
         "protocol": protocol}
    if mr is not None:
        c["max_retransmits"] = mr
    if life is not None:
        c["max_life_ms"] = life
    return c


def scenario(sid, faults, chans, msgs, cfg=None, idle_ms=0, deadline_ms=DEADLINE_MS, close=True):
    c = dict(DEFAULT_CFG)
    if cfg:
        c.update(cfg)
    return {"id": sid, "faults": faults, "cfg": c, "chans": chans, "msgs": msgs, "deadline_ms": deadline_ms,
            "idle_ms": idle_ms, "close": close}


def basic_workload(rng, both=False):
    """the model's workload MsgsA12 (+ one message back in MsgsBoth), then one probe message each way
    after the fault phase (phase 2): a broken association shows as a stall there"""
    m = [{"from": "A", "sid": 1, "len": size_for(1, rng)}, {"from": "A", "sid": 1, "len": size_for(2, rng)}]
    if both:
        m.append({"from": "B", "sid": 1, "len": size_for(2, rng), "task": 1})
    m += [{"from": "A", "sid": 1, "len": size_for(1, rng), "phase": 2},
          {"from": "B", "sid": 1, "len": size_for(1, rng), "phase": 2}]
    return m


# --------------------------------------------------------------------------------------------- harness side

def run_scenarios(ck, scenarios, tag, nproc=8, timeout=1800):
    """run the scenarios in `nproc` worker processes; returns the raw events per scenario id"""
    d = ck.dir
    tag = f"{tag}_{ck.tier}_{os.getpid()}"
    spath = os.path.join(d, f"scen_{tag}.ndjson")
    vlib.write_ndjson(spath, scenarios)
    nproc = max(1, min(nproc, len(scenarios)))
    procs = []
    env = dict(os.environ)
    env["VERIF_SEED"] = str(vlib.seed())
    env.pop("RUSTRTC_PACKET_LOSS", None)
    for i in range(nproc):
        out = os.path.join(d, f"raw_{tag}_{i}.ndjson")
        p = subprocess.Popen([vlib.bin_path("sctp"), spath, out, f"{i}/{nproc}"], cwd=vlib.ROOT, env=env,
                             stdout=subprocess.PIPE, stderr=subprocess.PIPE, text=True)
        procs.append((p, out))
    t0 = time.time()
    by_id = {}
    for p, out in procs:
        try:
            _, err = p.communicate(timeout=max(10, timeout - (time.time() - t0)))
        except subprocess.TimeoutExpired:
            for q, _ in procs:
                q.kill()
            raise vlib.ToolError(f"sctp harness timed out after {timeout}s")
        if p.returncode != 0:
            raise vlib.ToolError(f"sctp harness failed rc={p.returncode}: {err[-2000:]}")
        cur = None
        with open(out) as f:
            for line in f:
                e = json.loads(line)
                if e.get("comp") == "app" and e.get("ev") == "reset":
                    cur = by_id.setdefault(e["scenario"], [])
                if cur is not None:
                    cur.append(e)
    missing = [s["id"] for s in scenarios if s["id"] not in by_id]
    if missing:
        raise vlib.ToolError(f"no trace recorded for scenarios {missing[:5]}")
    return by_id


# --------------------------------------------------------------------------------------------- normalisation

def _rel(tsn, itsn):
    d = (tsn - itsn) & 0xFFFFFFFF
    if d >= 1 << 31:
        d -= 1 << 32
    if d < -BASE or d > FAR - BASE - 2048:
        return FAR + (abs(d) % 1024)
    return d + BASE


class Norm:
    """normalise one scenario's raw events for the trace spec (no verdicts here)"""

    def __init__(self, sc_index, spec, events):
        self.idx = sc_index
        self.spec = spec
        self.events = events
        self.sids = [c["sid"] for c in spec["chans"]]
        self.tags = {0: 0}
        self.itsn = {"A": None, "B": None}
        for e in events:
            if e["comp"] == "sctp" and e["ev"] == "tx":
                for c in e["chunks"]:
                    if c["type"] in (1, 2) and self.itsn[e["inst"]] is None:
                        self.itsn[e["inst"]] = c["itsn"]
        for s in "AB":
            if self.itsn[s] is None:
                self.itsn[s] = 0
        # channels with several concurrent sender tasks on one side: the submission order of such a
        # channel is the order in which send_data_raw serialises the calls (enqueue hook, emitted while the
        # channel's send lock is held), not the order in which the tasks announced their calls
        tasks = {}
        for m in spec["msgs"]:
            tasks.setdefault((m["from"], m["sid"]), set()).add((m.get("task", 0), m.get("phase", 1)))
        self.multi = {k for k, v in tasks.items() if len({t for t, _ in v}) > 1}
        self.pending_sub = {}

    def ch(self, sid):
        return self.sids.index(sid) + 1 if sid in self.sids else 0

    def tag(self, v):
        return self.tags.setdefault(v, len(self.tags))

    def chans(self):
        out = []
        for c in self.spec["chans"]:
            out.append({"ord": bool(c.get("ordered", True)),
                        "rel": c.get("max_retransmits") is None and c.get("max_life_ms") is None,
                        "neg": bool(c.get("negotiated", True)), "creator": c.get("creator", "A"),
                        "label": c.get("label", ""), "proto": c.get("protocol", ""),
                        "mr": c["max_retransmits"] if c.get("max_retransmits") is not None else -1,
                        "life": c["max_life_ms"] if c.get("max_life_ms") is not None else -1})
        return out

    def chunk(self, c, sender):
        """a chunk as sent by `sender` (tx hook or wire view)"""
        peer = "B" if sender == "A" else "A"
        t = c["type"]
        o = {"t": t, "f": c.get("flags", 0), "tsn": 0, "ch": 0, "ssn": 0, "ulen": 0, "ppid": 0, "cum": 0, "rwnd": 0}
        if t == 0 and "tsn" in c:
            o.update(tsn=_rel(c["tsn"], self.itsn[sender]), ch=self.ch(c.get("sid", -1)), ssn=c.get("ssn", 0),
                     ulen=c["ulen"] if "ulen" in c else c.get("len", 0), ppid=c.get("ppid", 0))
        elif t == 3 and "cum" in c:
            o.update(cum=_rel(c["cum"], self.itsn[peer]), rwnd=min(c.get("rwnd", 0), 1 << 30))
        elif t == 192 and "cum" in c:
            o.update(cum=_rel(c["cum"], self.itsn[sender]))
        elif t in (1, 2) and "itsn" in c:
            o.update(tsn=_rel(c["itsn"], self.itsn[sender]), rwnd=min(c.get("rwnd", 0), 1 << 30))
        return o

    def run(self):
        out = []
        closed_reported = False
        closing = False
        for e in self.events:
            comp, ev, i = e["comp"], e["ev"], e["seq"]
            s = e.get("inst")
            if comp == "app":
                if ev == "reset":
                    out.append({"e": "reset", "i": i, "sc": self.idx, "chans": self.chans()})
                elif ev == "submit":
                    rec = {"e": "submit", "i": i, "s": s, "ch": self.ch(e["sid"]), "mid": e["mid"],
                           "len": e["len"], "h": e["h"] & 0x7FFFFFFF}
                    if (s, e["sid"]) in self.multi:
                        self.pending_sub.setdefault((s, e["sid"], e["len"], e["h"]), []).append(rec)
                    else:
                        out.append(rec)
                elif ev == "recv":
                    if e["kind"] == "close" and not closing:
                        closed_reported = True
                    c = self.ch(e["sid"])
                    if c == 0:
                        out.append({"e": "stray", "i": i, "s": s, "sid": e["sid"], "kind": e["kind"]})
                    else:
                        out.append({"e": "recv", "i": i, "s": s, "ch": c, "kind": e["kind"],
                                    "len": e.get("len", 0), "h": e.get("h", 0) & 0x7FFFFFFF})
                elif ev == "close_call":
                    out.append({"e": "chan", "i": i, "s": s, "ch": self.ch(e["sid"]), "what": "closing", "cause": "app"})
                elif ev == "newchan":
                    out.append({"e": "newchan", "i": i, "s": s, "ch": self.ch(e["sid"]), "ord": bool(e["ordered"]),
                                "mr": e["max_retransmits"] if e["max_retransmits"] is not None else -1,
                                "life": e["max_life_ms"] if e["max_life_ms"] is not None else -1,
                                "label": e["label"], "proto": e["protocol"]})
                elif ev in ("flushed", "quiet_begin", "quiet_end", "closing", "phase_end"):
                    if ev == "closing":
                        closing = True
                    out.append({"e": "mark", "i": i, "what": ev})
                elif ev == "end":
                    out.append({"e": "end", "i": i, "complete": bool(e["complete"]), "closed": closed_reported})
            elif comp == "sctp":
                if ev == "tx":
                    out.append({"e": "tx", "i": i, "s": s, "vtag": self.tag(e["vtag"]), "len": e["len"],
                                "chunks": [self.chunk(c, s) for c in e["chunks"]]})
                elif ev == "rx":
                    peer = "B" if s == "A" else "A"
                    t = e["type"]
                    o = {"e": "rx", "i": i, "s": s, "t": t, "f": e["flags"], "tsn": 0, "ch": 0, "ssn": 0, "ulen": 0,
                         "ppid": 0, "cum": 0, "rwnd": 0, "gaps": [], "streams": [], "u": False, "b": False,
                         "en": False, "st": e.get("st", "")}
                    if t == 0 and "tsn" in e:
                        o.update(tsn=_rel(e["tsn"], self.itsn[peer]), ch=self.ch(e["sid"]), ssn=e["ssn"],
                                 ulen=e["len"], ppid=e["ppid"], u=bool(e["flags"] & 4), b=bool(e["flags"] & 2),
                                 en=bool(e["flags"] & 1))
                    elif t == 3 and "cum" in e:
                        o.update(cum=_rel(e["cum"], self.itsn[s]), rwnd=min(e["rwnd"], 1 << 30),
                                 gaps=[[a, b] for a, b in e["gaps"]])
                    elif t == 192 and "cum" in e:
                        o.update(cum=_rel(e["cum"], self.itsn[peer]),
                                 streams=[[self.ch(a), b] for a, b in e.get("streams", [])])
                    elif t in (1, 2) and "itsn" in e:
                        o.update(tsn=_rel(e["itsn"], self.itsn[peer]), rwnd=min(e["rwnd"], 1 << 30))
                    out.append(o)
                elif ev == "snap":
                    peer = "B" if s == "A" else "A"
                    out.append({"e": "snap", "i": i, "s": s, "at": e["at"], "st": e["st"],
                                "next": _rel(e["next_tsn"], self.itsn[s]), "cum": _rel(e["cum"], self.itsn[peer]),
                                "rcvq": e["rcvq"], "sentq": e["sentq"], "unacked": e["unacked"],
                                "flight": min(e["flight"], 1 << 30), "cwnd": min(e["cwnd"], 1 << 30),
                                "rwnd": min(e["rwnd"], 1 << 30), "outq": e["outq"], "mytag": self.tag(e["mytag"]),
                                "peertag": self.tag(e["peertag"])})
                elif ev == "deliver":
                    out.append({"e": "deliver", "i": i, "s": s, "ch": self.ch(e["sid"]), "len": e["len"],
                                "h": e["h"] & 0x7FFFFFFF})
                elif ev == "sackfx":
                    out.append({"e": "sackfx", "i": i, "s": s, "removed": [_rel(t, self.itsn[s]) for t in e["removed"]],
                                "acked": [_rel(t, self.itsn[s]) for t in e["gap_acked"]]})
                elif ev == "advfx":
                    out.append({"e": "advfx", "i": i, "s": s, "removed": [_rel(t, self.itsn[s]) for t in e["removed"]]})
                elif ev in ("t1", "t3", "tlp", "advance"):
                    out.append({"e": "timer", "i": i, "s": s, "what": ev})
                elif ev in ("open", "close"):
                    out.append({"e": "chan", "i": i, "s": s, "ch": self.ch(e["sid"]), "what": ev, "cause": e["cause"]})
                elif ev == "enqueue":
                    q = self.pending_sub.get((s, e["sid"], e["len"], e["h"]))
                    if q and e["ppid"] != 50:
                        rec = q.pop(0)
                        rec["i"] = i
                        out.append(rec)
                    out.append({"e": "enq", "i": i, "s": s, "ch": self.ch(e["sid"]), "ssn": e["ssn"],
                                "nfrag": e["nfrag"], "len": e["len"], "ppid": e["ppid"], "ord": bool(e["ordered"])})
                else:
                    out.append({"e": "other", "i": i, "s": s, "what": ev})
            elif comp == "net" and ev != "pkt":
                out.append({"e": "other", "i": i, "s": "P", "what": ev})
            elif comp == "net":
                types = [c["type"] for c in e["chunks"]]
                itag = 0
                for c in e["chunks"]:
                    if c["type"] in (1, 2) and "itag" in c:
                        itag = self.tag(c["itag"])
                peer = "B" if e["dir"] == "A" else "A"
                sacks = [{"cum": _rel(c["cum"], self.itsn[peer]), "gaps": [[a, b] for a, b in c.get("gaps", [])]}
                         for c in e["chunks"] if c["type"] == 3 and "cum" in c]
                out.append({"e": "net", "i": i, "dir": e["dir"], "act": e["act"], "len": e["len"],
                            "crc": bool(e["crc_ok"]), "wf": bool(e["well_formed"]), "vtag": self.tag(e["vtag"]),
                            "types": types, "hasinit": 1 in types, "itag": itag, "sacks": sacks})
        return out


# --------------------------------------------------------------------------------------------- trace validation

def validate(ck, pid, scenarios, by_id, tag, timeout=900):
    """normalise, concatenate, replay through Trace_SctpAssoc with Props = {pid}; returns (bad, ext, nevents)"""
    norm = []
    for k, sc in enumerate(scenarios):
        part = Norm(k + 1, sc, by_id[sc["id"]]).run()
        # positions (1-based, in the concatenated trace) of the submit events per side and channel, in
        # submission order: the trace spec reads submitted messages in place instead of copying them
        nch = len(sc["chans"])
        idx = {"A": [[] for _ in range(nch)], "B": [[] for _ in range(nch)]}
        for j, e in enumerate(part):
            if e["e"] == "submit" and e["ch"] > 0:
                idx[e["s"]][e["ch"] - 1].append(len(norm) + j + 1)
        for e in part:
            if e["e"] == "reset":
                e["subidx"] = idx
        norm += part
    tag = f"{tag}_{ck.tier}_{os.getpid()}"
    path = os.path.join(ck.dir, f"trace_{tag}.ndjson")
    vlib.write_ndjson(path, norm)
    sinks = {t: os.path.join(ck.dir, f"trace_{tag}.{t.lower()}") for t in ("BAD", "EXT", "CURSOR")}
    res = vlib.tlc("Trace_SctpAssoc", f"Trace_SctpAssoc_{pid}.cfg", workers=1, timeout=timeout,
                   tags=("BAD", "EXT", "CURSOR"), sinks=sinks, tag=f"Trace_SctpAssoc_{pid}_{tag}", seed_arg=False,
                   env={"TRACE": path,
                        "JAVA_TOOL_OPTIONS": "-Dtlc2.tool.queue.IStateQueue=StateDeque -Xmx6g -Xss1g"})
    vlib.tlc_ok(res, f"trace validation {tag}")
    cur = vlib.read_ndjson(sinks["CURSOR"])
    if not cur or cur[-1]["l"] != cur[-1]["n"] + 1:
        vlib.log("\n".join(res["raw_tail"][-40:]))
        raise vlib.ToolError(f"trace validation did not reach the end of the trace ({cur})")
    bad = vlib.read_ndjson(sinks["BAD"])
    ext = vlib.read_ndjson(sinks["EXT"])
    bad = bad[-1]["bad"] if bad else []
    ext = ext[-1]["ext"] if ext else []
    return bad, ext, len(norm), res


def fault_sig(sc):
    return sorted(f"{f['dir']}:{f['k']}:{f['kind']}" for f in sc["faults"])


def F(d, k, o, kind, ak="NONE", ao=0, t=None, at=None):
    """a fault record in the shape TLC prints (used for hand-written witnesses only)"""
    r = {"dir": d, "k": k, "o": o, "kind": kind, "ak": ak, "ao": ao}
    if t is not None:
        r["t"] = t
    if at is not None:
        r["at"] = at
    return r


def record_results(ck, pid, scenarios, by_id, bad, ext):
    """divergences -> violations / known findings; drift -> ck.drift"""
    for b in bad:
        sc = scenarios[b["sc"] - 1]
        if sc.get("ext_only"):
            # scenario outside the fault alphabet of the listed properties (e.g. peer restart): report as drift
            ck.drift.append({"rule": b["rule"], "scenario": sc["id"], "ext_scenario": sc["ext_only"], "detail": b.get("d")})
            continue
        sig = {"sub": "sctp", "rule": b["rule"], "faults": fault_sig(sc),
               "chunks": sorted({f["k"] for f in sc["faults"]})}
        rec = {"rule": b["rule"], "detail": b.get("d"), "at_event_seq": b["i"], "scenario": sc}
        ck.divergence(sig, rec)
    seen = set()
    for x in ext:
        sc = scenarios[x["sc"] - 1]
        k = (x["rule"], tuple(fault_sig(sc)))
        if k in seen:
            continue
        seen.add(k)
        ck.drift.append({"rule": x["rule"], "faults": fault_sig(sc), "scenario": sc["id"], "detail": x.get("d")})


def confirm_liveness(ck, pid, scenarios, bad):
    """a liveness verdict depends on wall-clock: keep it only if the same content-addressed scenario
    fails three times, the last time run alone"""
    keep = []
    stalled = {}
    for b in bad:
        if b["rule"] == "EventuallyDelivered" and not scenarios[b["sc"] - 1].get("ext_only"):
            stalled[b["sc"]] = b
        else:
            keep.append(b)
    for n, (k, b) in enumerate(sorted(stalled.items())):
        sc = scenarios[k - 1]
        if n >= MAX_CONFIRM:
            # enough confirmed stalls to report; the remaining ones are not re-run (bounded run time)
            ck.notes.append(f"stall of scenario {sc['id']} not re-run (more than {MAX_CONFIRM} stalls in this run)")
            continue
        fails = 1
        for attempt in (2, 3):
            one = dict(sc)
            one["id"] = f"{sc['id']}.retry{attempt}"
            by = run_scenarios(ck, [one], f"retry_{pid}", nproc=1)
            end = [e for e in by[one["id"]] if e["comp"] == "app" and e["ev"] == "end"]
            closed = any(e["comp"] == "app" and e["ev"] == "recv" and e.get("kind") == "close" for e in
                         by[one["id"]][: next((j for j, e in enumerate(by[one["id"]]) if e["comp"] == "app" and e["ev"] == "closing"), None)])
            if end and not end[-1]["complete"] and not closed:
                fails += 1
            else:
                break
        if fails == 3:
            keep.append(b)
        else:
            ck.notes.append(f"stall of scenario {sc['id']} did not reproduce ({fails}/3): not reported")
    return keep


def gen_window_schedules(ck, tier):
    """closing-window schedules: the budgeted model with a 2-chunk receive window, four chunks to send, losses of
    A's DATA and delayed / late-duplicated SACKs of B (budget 2; liveness checked on the same run)"""
    path = os.path.join(ck.dir, f"sched_win_{tier}_{os.getpid()}.ndjson")
    res = tlc_mc(ck, "fifo_window", mode="fifo", budget=2, fair=True, msgs="MsgsA22", init_a="{14}", init_b="{0}", win=3,
                 rwnd=2, action_constraint="EmitWindowSched", sched_sink=path, timeout=900)
    vlib.tlc_ok(res, "fifo closing window")
    ck.add_tlc(res, "fifo/closing window (rwnd 2 chunks, liveness + DATA-loss x SACK-delay pairs)")
    return schedules_from(path)


def window_scenarios(scheds, rng, idle_ms=0, limit=40, seed=0):
    """the model's 4 chunks become a small leading message and 30 equal ones (more than the 2 KiB window holds);
    a loss of the leading chunk is repeated three times (the code's tail-loss probe and fast retransmit repair a
    single loss before the window closes); 'acknowledges all 4 chunks' becomes 'acknowledges all 31' """
    out = []
    nmsg = 30
    for i, f in enumerate(sample(scheds, limit, seed)):
        g = []
        for x in f:
            y = dict(x)
            if y["k"] == "DATA" and y["kind"] == "drop":
                for k in range(3):
                    g.append(dict(y, o=k + 1))
                continue
            if y.get("ak") == "SACK" and y.get("at", 0) >= 4:
                y["at"] = nmsg + 1
            g.append(y)
        size = rng.choice([300, 500, 700])
        msgs = [{"from": "A", "sid": 1, "len": 10}] + [{"from": "A", "sid": 1, "len": size} for _ in range(nmsg)]
        msgs += [{"from": "A", "sid": 1, "len": 5, "phase": 2}, {"from": "B", "sid": 1, "len": 5, "phase": 2}]
        out.append(scenario(f"zw{i:03d}", g, [chan(1)], msgs, cfg={"rwnd": rng.choice([1536, 2048, 2560, 3072])},
                            idle_ms=idle_ms, deadline_ms=DEADLINE_MS))
    return out


def gen_collision_schedules(ck, tier):
    """INIT collision: both ends send INIT (RFC 4960 5.2.1, what browsers do). The budgeted model with both sides
    initiating (one message) - every interleaving of the two handshakes, single faults on either side's set-up chunks;
    invariants OpenOnce / SetupIdempotent, liveness EventuallyDelivered and T1Stops on the same model"""
    path = os.path.join(ck.dir, f"sched_coll_{tier}_{os.getpid()}.ndjson")
    tlc_mc_split(ck, "fifo_collision", "fifo/INIT collision (both ends initiate)", path, mode="fifo", budget=1,
                 msgs="MsgsA1" if tier == "quick" else "MsgsA12", init_a="{14}", init_b="{0, 3}", initiators='{"A", "B"}',
                 timeout=900)
    return schedules_from(path)


def collision_scenarios(scheds, rng, limit=30, seed=0, idle_ms=450):
    """both real endpoints act as SCTP clients; the quiet window is longer than two maximal T1 intervals, so a set-up
    timer that keeps running shows as chatter inside it"""
    out = []
    for i, f in enumerate([[]] + sample(scheds, limit, seed)):
        out.append(scenario(f"ic{i:03d}", f, [chan(1)], basic_workload(rng, both=True), cfg={"both_init": True},
                            idle_ms=idle_ms))
    return out


def sample(lst, n, seed):
    if len(lst) <= n:
        return list(lst)
    r = random.Random(seed)
    idx = sorted(r.sample(range(len(lst)), n))
    return [lst[i] for i in idx]


def cleanup(ck):
    """scratch files of this run (they carry the process id) are removed unless something was found"""
    if ck.violations or ck.known_hits:
        return
    tag = f"_{os.getpid()}"
    for name in os.listdir(ck.dir):
        if tag in name and (name.startswith(("raw_", "scen_", "trace_", "sched_"))):
            try:
                os.remove(os.path.join(ck.dir, name))
            except OSError:
                pass
