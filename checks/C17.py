"""C17 - closing or losing a connection at any moment ends it cleanly and visibly.

Lifecycle.tla models the victim endpoint's loops as separate processes; TLC (i) checks the design
(TerminalIsStable, ReasonSet, CloseOnce, ReportsTerminal, LocalEndsClosed, NoHang, Released with Deviations = {}),
and (ii) enumerates the feasible (phase, event [, racing event at point]) scenarios.  Each scenario is executed on a
real pc-pair (harness bin `life`: the event is fired synchronously inside rustrtc at the probe point that defines
the phase / race point); the recorded hook + watch + application events and the end-state observations are
validated by TLC against Trace_Lifecycle, whose C17 rules are guards over logged quantities."""
import json
import os
import re
import subprocess
import threading
import time
from concurrent.futures import ThreadPoolExecutor

import lifecycle_common as lc
import vlib

PID = "C17"
ALL_PHASES = ["created", "offerMade", "gathering", "checking", "iceConnected", "dtlsHandshaking", "dtlsConnected",
              "sctpConnecting", "channelsOpen", "renegotiating"]
ALL_EVENTS = ["Close", "Drop", "PeerCloseNotify", "PeerSctpAbort", "PeerSctpShutdown", "IceStop", "SocketLoss",
              "BlockedSender"]
RULES = ["C17.Stable", "C17.Reason", "C17.CloseOnce", "C17.NoHang", "C17.Released", "C17.Terminal",
         "C17.LocalClosed", "C17.DoubleClose"]
LIVENESS_RULES = {"C17.NoHang", "C17.Released", "C17.Terminal"}
CHUNK = 12
ALL_DEVS = ["OverwriteClosed", "LoopsDoneSilent", "HsRunnerDoneWaits", "StrongRefInConnLoop", "WaitConnectedBlind",
            "SigOverwriteClosed", "SendCheckThenPark", "ExitDoesNotWake", "GraceNotRearmed"]


def tla_set(xs):
    return "{" + ", ".join('"%s"' % x for x in xs) + "}"


def mc_cfg(path, *, mode="WebRtc", dc=True, traffic=False, devs=(), max_events=1, phases=ALL_PHASES,
           ev1=ALL_EVENTS, ev2=("Close",), wfc=2, emit=False, liveness=True, answerer=False, flaps=0,
           ice_fallback=True):
    props = "PROPERTIES TerminalIsStable" + (" CloseEventually ReportsTerminal LocalEndsClosed NoHang Released"
                                             if liveness else "")
    with open(path, "w") as f:
        f.write(f"""SPECIFICATION Spec
CONSTANTS
  Mode = "{mode}"
  HasDc = {"TRUE" if dc else "FALSE"}
  Traffic = {"TRUE" if traffic else "FALSE"}
  Deviations = {tla_set(devs)}
  Props = {{"C17"}}
  MaxEvents = {max_events}
  WfcBudget = {wfc}
  Answerer = {"TRUE" if answerer else "FALSE"}
  MaxFlaps = {flaps}
  IceFailFallback = {"TRUE" if ice_fallback else "FALSE"}
  PhaseSet = {tla_set(phases)}
  Ev1Set = {tla_set(ev1)}
  Ev2Set = {tla_set(ev2)}
INVARIANTS TypeOK ReasonSet CloseAtMostOnce
{props}
ACTION_CONSTRAINT {"EmitScenario" if emit else "NoEmit"}
CHECK_DEADLOCK FALSE
""")


def trace_cfg(path, *, mode, dc, props, max_silent=8, answerer=False):
    with open(path, "w") as f:
        f.write(f"""SPECIFICATION TraceSpec
CONSTANTS
  Mode = "{mode}"
  HasDc = {"TRUE" if dc else "FALSE"}
  Traffic = FALSE
  Deviations = {tla_set(ALL_DEVS)}
  Props = {tla_set(props)}
  MaxEvents = 9
  WfcBudget = 2
  Answerer = {"TRUE" if answerer else "FALSE"}
  MaxFlaps = 3
  IceFailFallback = TRUE
  PhaseSet = {{"renegotiating"}}
  Ev1Set = {{}}
  Ev2Set = {{}}
  MaxSilent = {max_silent}
VIEW tview
CONSTRAINT Furthest
POSTCONDITION Post
CHECK_DEADLOCK FALSE
""")


# --------------------------------------------------------------------------- scenario generation (TLC)

def emit_scenarios(ck, label, **kw):
    cfg = os.path.join(vlib.SPEC, f"MC_Lifecycle_{label}_{os.getpid()}.gen.cfg")
    mc_cfg(cfg, emit=True, liveness=False, **kw)
    sink = os.path.join(ck.dir, f"scen_{label}.ndjson")
    res = vlib.tlc("MC_Lifecycle", os.path.basename(cfg), tags=("SCEN",), sinks={"SCEN": sink}, timeout=1500,
                   tag=f"lifecycle_{label}", heap="6g")
    os.remove(cfg)
    vlib.tlc_ok(res, f"scenario emission {label}")
    ck.add_tlc(res, f"emit:{label}")
    seen, out = set(), []
    for r in vlib.read_ndjson(sink):
        key = (r["mode"], r["dc"], r["phase"], tuple(r["evs"]), tuple(r["ats"]), r.get("flaps", 0))
        if key not in seen:
            seen.add(key)
            out.append(r)
    out.sort(key=lambda r: (ALL_PHASES.index(r["phase"]) if r["phase"] in ALL_PHASES else 99, r["evs"], r["ats"]))
    return out, res


def to_harness(rows, start_id, attempts):
    out = []
    for r in rows:
        ev2 = r["evs"][1] if len(r["evs"]) > 1 else "none"
        at2s = ["none"]
        if ev2 != "none":
            at2 = r["ats"][1] if r["ats"][1] != "any" else "delay"
            if r["evs"][0] == "BlockedSender" and (not at2.startswith("sctp:") or ev2 != "Close"):
                # BlockedSender already ends with the application's close(); only its own race point is new. Drop
                # is not meaningful there: the blocked call's future owns a handle, so the connection is not dropped.
                continue
            # the sender's wait point is reached once with a stale notify_one permit in hand and once without:
            # both visits are scenarios
            at2s = [at2 + "#1", at2 + "#2"] if at2.startswith("sctp:") else [at2]
        if (ev2 != "none" and r["evs"][0] in ("SocketLoss", "PeerSctpShutdown")
                and any(a.startswith("pre:") for a in at2s)):
            continue    # slow first events: racing second event only from the harness thread (each miss costs ~30 s)
        for at2 in at2s:
            out.append({"id": start_id + len(out), "kind": "c17", "mode": r["mode"], "victim": "A", "phase": r["phase"],
                        "ev1": r["evs"][0], "ev2": ev2, "at2": at2, "flaps": int(r.get("flaps", 0)),
                        "attempts": attempts if at2.startswith("pre:") else 1, "dc": bool(r["dc"])})
    return out


# --------------------------------------------------------------------------- harness

def run_harness(ck, scenarios, label, nshards):
    # files are written under a per-process name (two runs of this check may share the output directory) and
    # moved to the plain name afterwards, where the last run's recordings stay for inspection
    mine = f"{label}.{os.getpid()}"
    spath = os.path.join(ck.dir, f"scenarios_{mine}.ndjson")
    vlib.write_ndjson(spath, scenarios)
    outs = [os.path.join(ck.dir, f"trace_{mine}_{i}.ndjson") for i in range(nshards)]

    def one(i):
        p = vlib.run_bin("life", ["run", spath, outs[i], f"{i}/{nshards}"], timeout=7200)
        if p.returncode != 0:
            raise vlib.ToolError(f"life shard {i} failed rc={p.returncode}: {p.stderr[-1500:]}")
    try:
        with ThreadPoolExecutor(max_workers=nshards) as ex:
            list(ex.map(one, range(nshards)))
        runs = []
        for o in outs:
            runs += lc.split_scenarios(o)
    finally:
        for o in outs + [spath]:
            if os.path.exists(o):
                os.replace(o, o.replace(f".{os.getpid()}", ""))
    runs.sort(key=lambda evs: evs[0]["scenario"]["id"])
    return runs


# --------------------------------------------------------------------------- trace validation (TLC)

_TRACE_RE = re.compile(r'^<<"TRACE", "(\w+)", (\d+)(?:, "(.*)")?>>$')
_lock = threading.Lock()
_ctr = [0]


def validate(ck, flat, mode, dc, props, tag, answerer=False):
    """Run Trace_Lifecycle on the flat records.
    Returns (accepted, index of the first record no explanation could consume, tlc result,
             {scenario id: smallest set of broken rules over all explanations})."""
    with _lock:
        _ctr[0] += 1
        n = _ctr[0]
    tpath = os.path.join(ck.dir, f"tv_{tag}_{n}.ndjson")
    vlib.write_ndjson(tpath, flat)
    cfg = os.path.join(vlib.SPEC, f"Trace_Lifecycle_{os.getpid()}_{n}.gen.cfg")
    trace_cfg(cfg, mode=mode, dc=dc, props=props, answerer=answerer)
    sink = os.path.join(ck.dir, f"tv_{tag}_{n}.verdicts")
    res = vlib.tlc("Trace_Lifecycle", os.path.basename(cfg), workers=1, timeout=900, seed_arg=False,
                   tags=("VERDICT",), sinks={"VERDICT": sink},
                   env={"TRACE": tpath,
                        "JAVA_TOOL_OPTIONS": "-Xmx4g -Xss1g -Dtlc2.tool.queue.IStateQueue=StateDeque"},
                   tag=f"trace_lifecycle_{n}", heap="4g")
    os.remove(cfg)
    m = None
    for line in res["raw_tail"]:
        mm = _TRACE_RE.match(line)
        if mm:
            m = mm
    if res.get("timeout") or m is None:
        vlib.log("\n".join(res["raw_tail"][-30:]))
        raise vlib.ToolError(f"trace validation did not finish ({tag})")
    verdicts = {}
    for v in vlib.read_ndjson(sink):
        cur = [tuple(x) for x in v["viol"]]
        if v["id"] not in verdicts or len(cur) < len(verdicts[v["id"]]):
            verdicts[v["id"]] = cur
    for p in (tpath, sink):
        try:
            os.remove(p)
        except OSError:
            pass
    return m.group(1) == "accepted", int(m.group(2)), res, verdicts


def nice(r):
    return {k: v for k, v in r.items() if v not in ("", 0, False, [])}


def signature(sc, v, endpoint="victim"):
    """Structural signature of one broken rule: the rule, where it was observed, and the class of events."""
    rule, t, site, observed, x = v
    sig = {"sub": "lifecycle", "rule": rule, "mode": sc.get("mode", "WebRtc"), "phase": sc.get("phase"), "t": t,
           "endpoint": endpoint, "flaps": int(sc.get("flaps", 0)),
           "dc": bool(sc.get("dc", True)) and sc.get("mode", "WebRtc") == "WebRtc"}
    if t in ("pub", "sig"):
        sig["site"] = site
        sig["observed"] = observed
    elif t == "api_hang":
        sig["call"] = x
    elif t == "end":
        sig["observed"] = observed
    local = [e for e in (sc.get("ev1"), sc.get("ev2")) if e in ("Close", "Drop", "BlockedSender")]
    remote = [e for e in (sc.get("ev1"), sc.get("ev2")) if e not in ("Close", "Drop", "BlockedSender", "none", None)]
    sig["local"] = local[0] if local else "none"
    sig["remote"] = remote[0] if remote else "none"
    return sig


# --------------------------------------------------------------------------- tiers

def plan(tier):
    if tier == "quick":
        return {
            "design": [("single", dict(max_events=1, wfc=1, liveness=True,
                                       phases=["offerMade", "checking", "dtlsHandshaking", "sctpConnecting",
                                               "channelsOpen"])),
                       ("flap", dict(max_events=1, wfc=0, liveness=True, phases=["channelsOpen"],
                                     ev1=["SocketLoss", "Close", "PeerCloseNotify"], flaps=1, ice_fallback=False)),
                       ("nodc", dict(max_events=1, wfc=1, liveness=True, dc=False,
                                     phases=["dtlsHandshaking", "dtlsConnected"]))],
            "emit": [("single", dict(max_events=1, wfc=0)),
                     ("media", dict(max_events=1, wfc=0, traffic=True, phases=["mediaFlowing"])),
                     ("pairs", dict(max_events=2, wfc=0, phases=["channelsOpen"],
                                    ev1=["Close", "PeerCloseNotify", "PeerSctpAbort", "IceStop"],
                                    ev2=["Close"])),
                     ("sender", dict(max_events=2, wfc=0, phases=["channelsOpen"], ev1=["BlockedSender"],
                                     ev2=["Close"])),
                     ("blocked", dict(max_events=1, wfc=0, phases=["senderBlocked"],
                                      ev1=["Close", "IceStop", "PeerCloseNotify", "PeerSctpAbort", "SocketLoss"])),
                     ("flap", dict(max_events=1, wfc=0, phases=["channelsOpen"], ev1=["SocketLoss"], flaps=1,
                                   ice_fallback=False)),
                     # WebRtc without a data channel (media only): no SCTP association whose end would end the
                     # transport start-up / the loops for us
                     ("nodc", dict(max_events=1, wfc=0, dc=False, phases=["dtlsHandshaking", "dtlsConnected"],
                                   ev1=["Close", "Drop", "IceStop"])),
                     ("rtp", dict(max_events=1, wfc=0, mode="Rtp", dc=False, phases=["offerMade", "channelsOpen"],
                                  ev1=["Close", "Drop", "IceStop"])),
                     ("srtp", dict(max_events=1, wfc=0, mode="Srtp", dc=False, phases=["channelsOpen"],
                                   ev1=["Close", "Drop"]))],
            "attempts": 2, "shards": 8, "repeat": 1,
        }
    return {
        "design": [("single", dict(max_events=1, wfc=2, liveness=True)),
                   ("media", dict(max_events=1, wfc=1, liveness=True, traffic=True, phases=["mediaFlowing"])),
                   # (no pending wait_for_connected here: with the slow fallbacks switched off it legitimately keeps
                   # waiting in Disconnected + IceDisconnected)
                   ("flap", dict(max_events=1, wfc=0, liveness=True, phases=["channelsOpen", "renegotiating"],
                                 flaps=2, ice_fallback=False)),
                   ("answerer", dict(max_events=1, wfc=1, liveness=True, answerer=True,
                                     phases=["created", "offerMade", "checking", "dtlsHandshaking", "sctpConnecting",
                                             "channelsOpen"])),
                   ("nodc", dict(max_events=1, wfc=1, liveness=True, dc=False, phases=["created", "offerMade", "gathering", "checking", "iceConnected", "dtlsHandshaking", "dtlsConnected"])),
                   ("pairs-safety", dict(max_events=2, wfc=0, liveness=False, ev2=["Close", "Drop"])),
                   ("rtp", dict(max_events=1, wfc=1, liveness=True, mode="Rtp", dc=False,
                                ev1=["Close", "Drop", "IceStop"])),
                   ("srtp", dict(max_events=1, wfc=1, liveness=True, mode="Srtp", dc=False,
                                 ev1=["Close", "Drop", "IceStop"]))],
        "emit": [("single", dict(max_events=1, wfc=0)),
                 ("media", dict(max_events=1, wfc=0, traffic=True, phases=["mediaFlowing"])),
                 ("pairs", dict(max_events=2, wfc=0, ev2=["Close", "Drop"])),
                 ("mediapairs", dict(max_events=2, wfc=0, traffic=True, phases=["mediaFlowing"], ev2=["Close"])),
                 ("sender", dict(max_events=2, wfc=0, phases=["channelsOpen"], ev1=["BlockedSender"], ev2=["Close"])),
                 ("flap", dict(max_events=1, wfc=0, phases=["channelsOpen", "renegotiating"],
                               ev1=["Close", "Drop", "PeerCloseNotify", "PeerSctpAbort", "IceStop", "SocketLoss"],
                               flaps=2, ice_fallback=False)),
                 ("flapmedia", dict(max_events=1, wfc=0, traffic=True, phases=["mediaFlowing"],
                                    ev1=["Close", "PeerCloseNotify", "SocketLoss"], flaps=1, ice_fallback=False)),
                 ("blocked", dict(max_events=2, wfc=0, phases=["senderBlocked"],
                                  ev1=["Close", "IceStop", "PeerCloseNotify", "PeerSctpAbort", "PeerSctpShutdown",
                                       "SocketLoss"], ev2=["Close"])),
                 ("nodc", dict(max_events=1, wfc=0, dc=False, phases=["created", "offerMade", "gathering", "checking", "iceConnected", "dtlsHandshaking", "dtlsConnected"])),
                 ("nodcpairs", dict(max_events=2, wfc=0, dc=False, phases=["dtlsHandshaking", "dtlsConnected"],
                                    ev2=["Close", "Drop"])),
                 ("nodcmedia", dict(max_events=1, wfc=0, dc=False, traffic=True, phases=["mediaFlowing"])),
                 ("rtp", dict(max_events=1, wfc=0, mode="Rtp", dc=False, ev1=["Close", "Drop", "IceStop"])),
                 ("srtp", dict(max_events=1, wfc=0, mode="Srtp", dc=False, ev1=["Close", "Drop", "IceStop"]))],
        "attempts": 2, "shards": 14, "repeat": 1,
    }


def design_checks(ck, pl, results):
    """TLC on the intended design (Deviations = {}): every property must hold."""
    for label, kw in pl["design"]:
        cfg = os.path.join(vlib.SPEC, f"MC_Lifecycle_design_{label}_{os.getpid()}.gen.cfg")
        mc_cfg(cfg, **kw)
        res = vlib.tlc("MC_Lifecycle", os.path.basename(cfg), workers=6, timeout=2400,
                       extra=("-lncheck", "final"), tag=f"lifecycle_design_{label}", heap="8g")
        os.remove(cfg)
        results.append((label, res))


def run(tier):
    lc.exclusive(vlib, PID)
    ck = vlib.Check(PID, tier)
    # TLC work directories of this check live under out/C17 (the shared out/tlc is cleaned by other runs)
    vlib.OUT = ck.dir
    pl = plan(tier)
    vlib.build_harness(["life"])

    # design check in the background while the conformance part runs
    design = []
    err = []

    def bg():
        try:
            design_checks(ck, pl, design)
        except Exception as e:  # noqa: BLE001
            err.append(e)
    th = threading.Thread(target=bg)
    th.start()

    # scenarios = TLC output
    scenarios, nid, emitted = [], 1, {}
    with ThreadPoolExecutor(max_workers=4) as ex:
        emitted_rows = list(ex.map(lambda lk: emit_scenarios(ck, lk[0], **lk[1]), pl["emit"]))
    for (label, kw), (rows, _res) in zip(pl["emit"], emitted_rows):
        if label in ("pairs", "mediapairs", "sender", "nodcpairs"):
            rows = [r for r in rows if len(r["evs"]) == 2]
        if label in ("flap", "flapmedia"):
            rows = [r for r in rows if r.get("flaps", 0) >= 1]
        hs = to_harness(rows, nid, pl["attempts"])
        nid += len(hs)
        emitted[label] = len(hs)
        scenarios += hs
    # the same cells on a current-thread runtime (quick: two phases; thorough: every single-event cell)
    ct = [dict(x, rt="current") for x in scenarios
          if x["ev2"] == "none" and x["mode"] == "WebRtc" and x["ev1"] != "BlockedSender"
          and (tier != "quick" or (x["phase"] in ("dtlsHandshaking", "channelsOpen")
                                   and x["ev1"] in ("Close", "Drop", "PeerCloseNotify")))]
    for i, x in enumerate(ct):
        x["id"] = nid + i
    emitted["current_thread"] = len(ct)
    scenarios += ct
    runs = []
    for rep in range(pl["repeat"]):
        batch = [dict(s, id=s["id"] + rep * 100000) for s in scenarios]
        runs += run_harness(ck, batch, f"{tier}_{rep}", pl["shards"])

    # validation: one TLC run per constants group; a rejected scenario is taken out, classified on its own, and the
    # rest of the group is validated again
    groups = {}
    for r in runs:
        sc = r[0]["scenario"]
        groups.setdefault((sc.get("mode", "WebRtc"), bool(sc.get("dc", True))), []).append(r)
    validated, unexplored, nontrivial, findings, peer_validated = 0, [], set(), [], 0
    chunks = []
    for (mode, dc), rs in sorted(groups.items()):
        todo = []
        for r in rs:
            end = r[-1]
            sc = r[0]["scenario"]
            if end.get("harness_timeout"):
                unexplored.append({"scenario": sc, "why": "harness watchdog"})
                continue
            if not end.get("hit"):
                unexplored.append({"scenario": sc, "why": "phase / race point not reached or event not applicable",
                                   "notes": end.get("notes")})
            todo.append(r)
        for i in range(0, len(todo), CHUNK):
            chunks.append((mode, dc, todo[i:i + CHUNK], False))
        # the endpoint that did not initiate (the answerer) is validated as an endpoint of its own
        # (quick: not for the racing pairs and the current-thread copies, whose peer sees what it sees in the
        # single-event scenario of the same first event)
        others = [r for r in todo if "other" in r[-1]
                  and (tier != "quick" or (r[0]["scenario"].get("ev2", "none") == "none"
                                           and r[0]["scenario"].get("rt", "multi") != "current"))]
        for i in range(0, len(others), CHUNK):
            chunks.append((mode, dc, others[i:i + CHUNK], True))

    def validate_chunk(job):
        mode, dc, todo, other = job
        out = {"validated": [], "findings": [], "drift": [], "tlc": [], "other": other}
        while todo:
            flat, bounds = [], []
            for r in todo:
                vic = r[0]["scenario"].get("victim", "A")
                f = lc.flatten(r, ("B" if vic == "A" else "A") if other else vic)
                bounds.append((len(flat) + 1, len(flat) + len(f)))
                flat += f
            ok, idx, res, verdicts = validate(ck, flat, mode, dc, ["EXT"] + RULES, f"grp_{mode}_{dc}", answerer=other)
            out["tlc"].append((res, f"trace{'-peer' if other else ''}:{mode}:{'dc' if dc else 'nodc'}:{len(todo)}"))
            k = len(todo) if ok else next(i for i, (a, b) in enumerate(bounds) if a <= idx <= b)
            for r in todo[:k]:
                sc = r[0]["scenario"]
                broken = verdicts.get(sc["id"], [])
                if not r[-1].get("hit"):
                    broken = []     # the planned events did not all fire: the cell is unexplored, nothing is judged
                out["validated"].append((r, broken))
                for v in broken:
                    out["findings"].append((mode, dc, r, v, other))
            if ok:
                break
            bad = todo[k]
            out["drift"].append({"scenario": {x: bad[0]["scenario"].get(x) for x in ("mode", "phase", "ev1", "ev2", "at2")},
                                 "endpoint": "peer" if other else "victim", "unexplained": nice(flat[idx - 1])})
            todo = todo[k + 1:]
        return out

    with ThreadPoolExecutor(max_workers=8) as ex:
        results = list(ex.map(validate_chunk, chunks))
    for out in results:
        for res, label in out["tlc"]:
            ck.add_tlc(res, label)
        ck.drift += out["drift"]
        findings += out["findings"]
        for r, broken in out["validated"]:
            sc = r[0]["scenario"]
            validated += 1
            if out["other"]:
                peer_validated += 1
                continue
            if r[-1].get("hit") and not [v for v in broken if v[0] != "EXT"]:
                nontrivial.add((sc["mode"], sc["phase"], sc["ev1"], sc["ev2"], sc["at2"], sc.get("rt", "multi"), sc.get("flaps", 0)))

    reported, confirmed = set(), {}
    for mode, dc, r, v, other in findings:
        sc = r[0]["scenario"]
        if v[0] == "EXT":
            ck.drift.append({"scenario": {x: sc.get(x) for x in ("mode", "phase", "ev1", "ev2", "at2")},
                             "endpoint": "peer" if other else "victim", "ext": list(v)})
            continue
        sig = signature(sc, v, "peer" if other else "victim")
        key = json.dumps(sig, sort_keys=True)
        record = {"scenario": sc, "broken": list(v), "end": {x: y for x, y in r[-1].items() if x != "api"},
                  "api": r[-1].get("api"), "replay": sc}
        if v[0] in LIVENESS_RULES and key not in reported and ck.known.match(PID, sig) is None:
            # every distinct signature is re-run; at most 8 confirmations per run (a broken tree produces many
            # signatures: the first 8 confirmed ones are enough for the verdict)
            if confirmed.get('#attempts', 0) >= 8:
                ck.notes.append(f"not confirmed (confirmation budget used up): {v} in {sc}")
                continue
            confirmed['#attempts'] = confirmed.get('#attempts', 0) + 1
            if confirm(ck, sc, v[0], mode, dc, other):
                confirmed[v[0]] = confirmed.get(v[0], 0) + 1
            else:
                ck.notes.append(f"unconfirmed (not reproduced 3x): {v} in {sc}")
                continue
        reported.add(key)
        ck.divergence(sig, record)

    # cross-layer ordering of the composed Stack model on the same recordings (EXT only)
    ck.cov["stack_ordering_traces_checked"] = sum(
        lc.stack_pass(ck, vlib, rs, lambda r: r[0]["scenario"].get("mode", "WebRtc"), f"{mode}_{dc}")
        for (mode, dc), rs in sorted(groups.items()))

    th.join()
    if err:
        raise err[0]
    for label, res in design:
        ck.add_tlc(res, f"design:{label}")
        if res.get("timeout"):
            raise vlib.ToolError(f"design check {label} timed out")
        if res["errors"] or res["rc"] != 0:
            ck.divergence({"sub": "lifecycle", "rule": "design", "label": label},
                          {"errors": res["errors"][:3], "tail": res["raw_tail"][-40:]})

    hit = sum(1 for r in runs if r[-1].get("hit"))
    ck.cov["traces_validated_against_impl"] = validated
    ck.cov["evaluations"] = len(runs)
    ck.cov["peer_endpoint_traces_validated"] = peer_validated
    ck.cov["distinct_nontrivial"] = len(nontrivial)
    ck.cov["scenarios"] = {"emitted": emitted, "executed": len(runs), "hit": hit, "unexplored": len(unexplored)}
    ck.cov["unexplored"] = [{k: u["scenario"].get(k) for k in ("mode", "phase", "ev1", "ev2", "at2")} | {"why": u["why"]}
                            for u in unexplored][:80]
    ck.cov["samples"] = [r[0]["scenario"] for r in runs[:3]] + [{"end": {k: v for k, v in runs[0][-1].items() if k != "api"}}]
    ck.cov["rule"] = ("a scenario = (mode, phase, event [, racing event at a publication point]) enumerated by TLC from "
                      "Lifecycle; executed on a real pc-pair with the event fired at the probe point; non-trivial = the "
                      "planned events were all fired and applicable and the trace was accepted by Trace_Lifecycle under "
                      "all C17 rules")
    ck.cov["exhaustive"] = False
    ck.assumptions += [
        "one victim endpoint (offerer) per scenario; the peer is a rustrtc endpoint driven by the harness",
        "events fire at the H5 probe points (phase boundary / publication site) or from a harness thread; interleavings "
        "inside DTLS/SCTP/ICE are those the scheduler happens to produce",
        "cells of the phase x event matrix that could not be hit are listed under coverage.unexplored, not passed",
        "liveness clauses (terminal reached, API calls return, resources released) use deadlines >= 20x the configured "
        "timers (STUN 400 ms) and are re-run 3x before being reported",
    ]
    ck.finish()


def confirm(ck, sc, rule, mode, dc, other=False):
    """Liveness verdicts: the same scenario must break the same rule three times (the last two runs alone)."""
    for n in range(2):
        runs = run_harness(ck, [dict(sc, id=sc["id"] + 500000 + n, attempts=5)], f"confirm_{sc['id']}_{n}", 1)
        if not runs or not runs[0][-1].get("hit"):
            return False
        vic = sc.get("victim", "A")
        flat = lc.flatten(runs[0], ("B" if vic == "A" else "A") if other else vic)
        ok, _idx, _res, verdicts = validate(ck, flat, mode, dc, ["EXT"] + RULES, f"confirm{sc['id']}", answerer=other)
        if not ok or not any(v[0] == rule for vs in verdicts.values() for v in vs):
            return False
    return True


def replay(path):
    lc.exclusive(vlib, PID)
    ck = vlib.Check(PID, "quick")
    vlib.build_harness(["life"])
    with open(path) as f:
        rec = json.load(f)
    sc = rec["record"]["replay"]
    runs = run_harness(ck, [dict(sc, attempts=5)], "replay", 1)
    mode, dc = sc.get("mode", "WebRtc"), bool(sc.get("dc", True))
    for r in runs:
        flat = lc.flatten(r, sc.get("victim", "A"))
        ok, idx, res, verdicts = validate(ck, flat, mode, dc, ["EXT"] + RULES, "replay")
        ck.add_tlc(res, "trace:replay")
        if not ok:
            ck.drift.append({"unexplained": nice(flat[idx - 1])})
        for vs in verdicts.values():
            for v in vs:
                if v[0] != "EXT":
                    ck.divergence(signature(sc, v), {"scenario": sc, "broken": list(v), "replay": sc})
    ck.cov.update(traces_validated_against_impl=len(runs), samples=[sc])
    ck.finish()


def selftest():
    """Negative controls on the model and the binding:
    (i) each deviation switched on makes TLC report the property it breaks;
    (ii) a recorded good trace with one corrupted field / one dropped hook event is flagged or rejected."""
    lc.exclusive(vlib, PID + "-selftest")
    ck = vlib.Check(PID + "-selftest", "quick")
    vlib.OUT = ck.dir
    expect = {"OverwriteClosed": "TerminalIsStable", "LoopsDoneSilent": "ReportsTerminal",
              "HsRunnerDoneWaits": "Released", "StrongRefInConnLoop": "LocalEndsClosed",
              "WaitConnectedBlind": "NoHang", "SigOverwriteClosed": "TerminalIsStable",
              "SendCheckThenPark": "NoHang", "ExitDoesNotWake": "NoHang", "GraceNotRearmed": "ReportsTerminal",
              "GuardSkipsConnecting": "NoHang", "CloseLeavesOrphanChannels": "NoHang"}
    ok = True
    for dev, prop in expect.items():
        cfg = os.path.join(vlib.SPEC, f"MC_Lifecycle_self_{dev}_{os.getpid()}.gen.cfg")
        # (a close() missed by the sender is healed by the wake-up at the end of the association, so the
        # check-then-park window only shows together with ExitDoesNotWake)
        mc_cfg(cfg, devs=[dev] + (["ExitDoesNotWake"] if dev == "SendCheckThenPark" else []), max_events=1,
               wfc=0 if dev == "GraceNotRearmed" else 1,   # (no pending wait_for_connected where the fallbacks are off)
               phases=["offerMade", "dtlsHandshaking", "sctpConnecting", "channelsOpen", "senderBlocked"],
               flaps=1 if dev == "GraceNotRearmed" else 0, ice_fallback=dev != "GraceNotRearmed")
        res = vlib.tlc("MC_Lifecycle", os.path.basename(cfg), workers=6, timeout=1200, tag=f"self_{dev}")
        os.remove(cfg)
        got = " ".join(res["errors"]) + " ".join(res["raw_tail"])
        hit = prop in got
        print(f"selftest: deviation {dev} violates {prop}: {hit}")
        ok &= hit
    # binding controls on a freshly recorded trace
    vlib.build_harness(["life"])
    sc = {"id": 1, "kind": "c17", "mode": "WebRtc", "victim": "A", "phase": "channelsOpen", "ev1": "Close",
          "ev2": "none", "at2": "none", "dc": True}
    runs = run_harness(ck, [sc], "selftest", 1)
    flat = lc.flatten(runs[0], "A")
    good, _idx, _res, verdicts = validate(ck, flat, "WebRtc", True, ["EXT"] + RULES, "self")
    clean = good and not [v for v in verdicts.get(1, []) if v[0] != "EXT"]
    print("selftest: unmodified trace accepted without broken rules:", clean)
    ok &= clean

    def mutated(fn):
        f2 = [dict(r) for r in flat]
        fn(f2)
        acc, _i, _r, vd = validate(ck, f2, "WebRtc", True, ["EXT"] + RULES, "self")
        return acc, {v[0] for v in vd.get(1, [])}

    def corrupt_watch(f2):      # a later watch value says Connected after Closed was seen
        last = max(i for i, r in enumerate(f2) if r["t"] == "w_peer" and r["peer"] == "Closed")
        f2.insert(last + 1, dict(f2[last], peer="Connected"))
    acc, rules = mutated(corrupt_watch)
    hit = "C17.Stable" in rules
    print("selftest: watch value Connected after Closed is flagged C17.Stable:", hit)
    ok &= hit

    def corrupt_closes(f2):     # the channel saw two Close events
        i = max(i for i, r in enumerate(f2) if r["t"] == "dc_close")
        f2.insert(i + 1, dict(f2[i]))
    acc, rules = mutated(corrupt_closes)
    hit = "C17.CloseOnce" in rules
    print("selftest: a second Close event is flagged C17.CloseOnce:", hit)
    ok &= hit

    def drop_pub(f2):           # the hook event of close()'s publication is missing
        i = next(i for i, r in enumerate(f2) if r["t"] == "pub" and r["site"] == "close")
        del f2[i]
    acc, rules = mutated(drop_pub)
    hit = (not acc) or "EXT" in rules
    print("selftest: dropping the close publication event is rejected / EXT:", hit)
    ok &= hit

    def corrupt_end(f2):        # resources not released
        f2[-1] = dict(f2[-1], b3=False)
    acc, rules = mutated(corrupt_end)
    hit = "C17.Released" in rules
    print("selftest: end record with released=false is flagged C17.Released:", hit)
    ok &= hit
    raise SystemExit(0 if ok else 2)
