"""C18 - RTP latching. Latch.tla checked by TLC; every (state, action) edge of the bounded
model is replayed on a real IceConn and each observable compared under the rule that governs it."""
import json
import os
import vlib

PID = "C18"

CFG = {
    # tier: list of (label, constants)
    "quick": [
        ("maxPk0-3/len5", dict(SeqAlpha="{0, 1, 65535}", MaxPks="{0, 1, 2, 3}", MaxLen=5)),
        # deep probation: two sources, long enough for the consecutive-run and majority rules to compete; the only
        # three-step consecutive run in this alphabet is 65535,0,1, so every consecutive-run scenario crosses the wrap
        ("maxPk7/len8", dict(Addrs='{"A", "B"}', SeqAlpha="{0, 1, 65535}", MaxPks="{7}", MaxLen=8,
                               InitRemotes='{"A"}')),
    ],
    "thorough": [
        ("maxPk0-4/len7", dict(SeqAlpha="{0, 1, 2, 65535}", MaxPks="{0, 1, 2, 3, 4}", MaxLen=7)),
        ("maxPk5-8/len9", dict(Addrs='{"A", "B"}', SeqAlpha="{0, 1, 2, 65535}", MaxPks="{5, 6, 7, 8}", MaxLen=9,
                               InitRemotes='{"A"}')),
    ],
}


SIM = {
    # random deep behaviours (G-sim): TLC -simulate prints every enabled out-edge of every state it visits, each with
    # the real (unmerged) history that led there - this reaches what the BFS transition cover cannot: states whose
    # shortest history is short but which are also reached by long histories (reset in mid-probation, re-enable, ...)
    "quick": dict(num=120, depth=14, consts=dict(SeqAlpha="{0, 1, 2, 65535}", MaxPks="{1, 2, 3, 4, 5, 6}", MaxLen=13)),
    "thorough": dict(num=3000, depth=22, consts=dict(SeqAlpha="{0, 1, 2, 3, 65535}", MaxPks="{0, 1, 2, 3, 4, 5, 6, 7, 8}",
                                                      MaxLen=21)),
}


def write_cfg(path, c, emit, deviations="{}", sim=False):
    with open(path, "w") as f:
        f.write(f"""SPECIFICATION Spec
CONSTANTS
  Addrs = {c.get('Addrs', '{"A", "B", "C"}')}
  SeqAlpha = {c['SeqAlpha']}
  MaxPks = {c['MaxPks']}
  MaxLen = {c['MaxLen']}
  InitRemotes = {c.get('InitRemotes', '{"A", "Unset"}')}
  Deviations = {deviations}
  InitLatch = {'{TRUE}' if sim else '{FALSE}'}
{'' if sim else 'VIEW view'}
INVARIANTS TypeOK Bounded BoundedImmediate
{'' if sim else 'PROPERTIES Legit CommitRule Sticky RtcpOnly NonRtcpKeepsRtcp PairPreserves'}
ACTION_CONSTRAINT {'EmitEdge' if emit else 'NoEmit'}
CHECK_DEADLOCK FALSE
""")


def _rm(path):
    # edge files are large (GBs in the thorough tier); violation records carry their own case
    try:
        os.remove(path)
    except OSError:
        pass


def sig_of(d):
    return {"sub": "latch", "rule": d.get("rule"), "field": d.get("field"), "kind": d.get("kind"), "by": d.get("by")}


def replay_edges(ck, edges_path, label):
    out = os.path.join(ck.dir, f"replay_{label.replace('/', '_')}.ndjson")
    p = vlib.run_bin("latch", [edges_path, out], timeout=3000)
    if p.returncode != 0:
        raise vlib.ToolError(f"latch replayer failed rc={p.returncode}: {p.stderr[-2000:]}")
    rows = vlib.read_ndjson(out)
    summ = [r for r in rows if r.get("type") == "summary"][0]
    for r in rows:
        if r.get("type") == "divergence":
            if r.get("rule") == "EXT":
                ck.drift.append({k: r[k] for k in ("field", "allowed", "observed", "kind") if k in r})
            else:
                ck.divergence(sig_of(r), r)
        elif r.get("type") == "drift":
            ck.drift.append({"expected": r["expected"], "observed": r["observed"], "act": r["case"]["act"]})
    return summ


def run(tier):
    ck = vlib.Check(PID, tier)
    vlib.build_harness(["latch"])
    total_edges = 0
    nontrivial = set()
    for label, consts in CFG[tier]:
        cfg = os.path.join(vlib.SPEC, f"MC_Latch_{tier}.gen.cfg")
        write_cfg(cfg, consts, emit=True)
        edges = os.path.join(ck.dir, f"edges_{tier}_{label.replace('/', '_')}.ndjson")
        res = vlib.tlc("MC_Latch", os.path.basename(cfg), tags=("EDGE",), sinks={"EDGE": edges},
                       timeout=3000 if tier == "thorough" else 600,
                       workers=vlib.NCPU if tier == "thorough" else 8, heap="24g" if tier == "thorough" else "8g")
        vlib.tlc_ok(res, label)
        ck.add_tlc(res, label)
        summ = replay_edges(ck, edges, label)
        total_edges += summ["edges"]
        # distinct non-trivial = distinct (cfg, pre-state-reaching history, action) edges whose action is a packet
        # that can influence latching (rtp/rtcp), counted by hashing
        with open(edges) as f:
            for i, line in enumerate(f):
                e = json.loads(line)
                if e["kind"] in ("rtp-probation", "rtp-commit", "rtcp", "pair", "signaling", "reset") or \
                        (e["kind"] in ("rtp-inert", "other") and e["pre"]):
                    nontrivial.add(hash(line))
                if i < 3 or (e["kind"] == "rtp-commit" and len(ck.cov["samples"]) < 8):
                    ck.cov["samples"].append({"cfg": e["cfg"], "pre": e["pre"], "act": e["act"], "kind": e["kind"],
                                              "by": e["by"], "expected": e["exp"]})
        ck.cov["exhaustive"] = res["finished"] and summ["edges"] == res["counts"]["EDGE"]
        _rm(edges)
        try:
            os.remove(cfg)
        except OSError:
            pass
    # G-sim
    sim = SIM[tier]
    cfg = os.path.join(vlib.SPEC, f"MC_Latch_sim_{tier}.gen.cfg")
    write_cfg(cfg, sim["consts"], emit=True, sim=True)
    edges = os.path.join(ck.dir, f"edges_{tier}_sim.ndjson")
    res = vlib.tlc("MC_Latch", os.path.basename(cfg), tags=("EDGE",), sinks={"EDGE": edges}, simulate=sim["num"],
                   depth=sim["depth"], timeout=3000 if tier == "thorough" else 600)
    if res["errors"] or res.get("timeout"):
        vlib.tlc_ok(res, "simulation")
    res["finished"] = False
    res["distinct"] = max(res["distinct"], 1)
    ck.add_tlc(res, f"simulate num={sim['num']} depth={sim['depth']}")
    summ = replay_edges(ck, edges, "sim")
    total_edges += summ["edges"]
    with open(edges) as f:
        for i, line in enumerate(f):
            if '"op":"reset"' in line or '"op":"retarget"' in line:
                nontrivial.add(hash(line))
            if i % 20011 == 7:
                e = json.loads(line)
                ck.cov["samples"].append({"cfg": e["cfg"], "pre": e["pre"], "act": e["act"], "kind": e["kind"],
                                          "source": "simulation"})
    os.remove(cfg)
    _rm(edges)
    ck.cov["traces_validated_against_impl"] = total_edges
    ck.cov["evaluations"] = total_edges
    ck.cov["distinct_nontrivial"] = len(nontrivial)
    ck.cov["rule"] = ("every (state, action) edge of the bounded Latch model (3 addresses, RTP matching/other SSRC x "
                      "marker x seq alphabet, RTCP, other, enable/expect/set_rtcp/reset/retarget/pair; each probation "
                      "setting) is executed on a fresh IceConn by replaying a history that reaches the state; "
                      "non-trivial = the action is a packet or control step that the latch rules speak about")
    ck.assumptions += [
        "bounded: 3 source addresses, sequence alphabet and history length as listed in tlc_runs",
        "IceConn is driven sequentially (its receive path is called from one socket read loop per connection)",
        "inbound-TCP adoption path (socket kind TcpStream) is not exercised: the object has no socket",
    ]
    ck.finish()


def replay(path):
    """Re-run one recorded violation."""
    ck = vlib.Check(PID, "quick")
    vlib.build_harness(["latch"])
    with open(path) as f:
        rec = json.load(f)
    case = rec["record"]["case"]
    ep = os.path.join(ck.dir, "replay_one.ndjson")
    vlib.write_ndjson(ep, [case])
    summ = replay_edges(ck, ep, "one")
    ck.cov.update(states=1, transitions=1, traces_validated_against_impl=summ["edges"], samples=[case])
    ck.finish()


def selftest():
    """Negative controls: (i) the deviation-on model must violate CommitRule in TLC;
    (ii) corrupting the expectation of a recorded edge must be reported by the replayer."""
    ck = vlib.Check(PID + "-selftest", "quick")
    cfg = os.path.join(vlib.SPEC, "MC_Latch_selftest.gen.cfg")
    write_cfg(cfg, CFG["quick"][0][1], emit=False, deviations='{"StaleCompareAtCommit"}')
    res = vlib.tlc("MC_Latch", os.path.basename(cfg), timeout=600)
    os.remove(cfg)
    ok1 = any("CommitRule" in e for e in res["errors"])
    print("selftest: deviation-on model violates CommitRule:", ok1)
    raise SystemExit(0 if ok1 else 2)
