"""C03 - only authenticated DTLS records are acted on; nothing leaves in clear; no nonce reuse.

DtlsRecord.tla is checked by TLC (receiver: OnlyAuthentic over phase x record alphabet; sender:
NonceUnique / EpochProtected / RecordLimit / Carried for 3 concurrent send() calls interleaved at
load-epoch / fetch-add / emit granularity with the handshake task's publication steps and close()).
Binding:
  R  every (receiver state, record) edge TLC generates is injected into a live pair of real
     DtlsTransports (harness/src/bin/dtlsrec.rs) in that phase, from the peer address and from a
     stranger socket; a genuine sentinel decides what the record caused.
  T  TLC-generated sender scenarios run with real concurrency; every record captured on the peer
     socket is logged and the wire trace is validated by Trace_DtlsRecord.tla.
"""
import json
import os
import time
import vlib

PID = "C03"
BIN = "dtlsrec"

# FlipBits: size in bits of the genuine record whose every single bit is flipped.
#   ApplicationData: 13 header + 8 nonce + payload + 16 tag; quick: 8-byte payload (45 B); thorough: 1200-byte (1237 B)
#   Finished: 13 + 8 + 24 + 16 = 61 B; alert: 39 B; CCS: 38 B
RX = {
    "quick": dict(FbApp=360, FbAlert=312, FbHs=488, FbCcs=304),
    "thorough": dict(FbApp=1237 * 8, FbAlert=312, FbHs=488, FbCcs=304),
}
# (label, senders, sizes, earlies, closes, explore) ; explore=True: full interleaving check, False: scenarios only
TX = {
    "quick": [
        ("K3", "{1, 2, 3}", "{0, 1, 3, 5}", "{FALSE, TRUE}", '{"none", "end", "mid"}', True),
        ("K1", "{1}", "{0, 1, 2, 3, 4, 5}", "{FALSE}", '{"none", "end", "mid"}', False),
        ("K2", "{1, 2}", "{1, 2, 3, 5}", "{FALSE}", '{"none", "end", "mid"}', False),
        ("K4", "{1, 2, 3, 4}", "{1, 2, 5}", "{FALSE}", '{"none", "mid"}', False),
        ("K8", "{1, 2, 3, 4, 5, 6, 7, 8}", "{1, 3}", "{FALSE, TRUE}", '{"none", "end", "mid"}', False),
    ],
    "thorough": [
        ("K3", "{1, 2, 3}", "{0, 1, 2, 3, 4, 5}", "{FALSE, TRUE}", '{"none", "end", "mid"}', True),
        ("K1", "{1}", "{0, 1, 2, 3, 4, 5, 6, 7, 8, 9, 16, 17}", "{FALSE}", '{"none", "end", "mid"}', False),
        ("K2", "{1, 2}", "{0, 1, 2, 3, 4, 5}", "{FALSE}", '{"none", "end", "mid"}', False),
        ("K4", "{1, 2, 3, 4}", "{1, 2, 3, 5}", "{FALSE}", '{"none", "end", "mid"}', False),
        ("K8", "{1, 2, 3, 4, 5, 6, 7, 8}", "{1, 2, 3}", "{FALSE, TRUE}", '{"none", "end", "mid"}', False),
    ],
}
# G-sim pass of the receiver: random behaviours (several injected records in a row, phase changes included);
# in simulation TLC prints every out-edge of every visited state with the real, unmerged history.
# The flip alphabet is cut to the 8 bits of the content-type byte so that it does not drown the other classes.
SIM = {"quick": dict(num=30, depth=6, reps="{1, 5}"), "thorough": dict(num=150, depth=8, reps="{1, 5}")}
SIM_FB = dict(FbApp=8, FbAlert=8, FbHs=8, FbCcs=8)
REPS = {"quick": dict(normal=3, burst=400, early=40), "thorough": dict(normal=12, burst=1200, early=300)}


def write_cfg(path, part, *, deviations="{}", fb=None, senders="{1}", sizes="{0}", earlies="{FALSE}",
              closes='{"none"}', emit=None, invariants=None, props=None, constraint=None, reps="{1, 4, 5, 101}"):
    fb = fb or dict(FbApp=8, FbAlert=8, FbHs=8, FbCcs=8)
    if invariants is None:
        invariants = ["TypeOK"] + (["NonceUnique", "EpochProtected", "RecordLimit", "Carried"] if part == "tx" else [])
    if props is None:
        props = ["OnlyAuthentic"] if part == "rx" else []
    with open(path, "w") as f:
        f.write(f"""SPECIFICATION Spec
CONSTANTS
  Part = "{part}"
  Deviations = {deviations}
  Roles = {{"client", "server"}}
  InitPhases = {{"NoKeys", "KeysPending", "Connected", "Closed"}}
  Reps = {reps}
  FlipBits <- MCFlipBits
  FbApp = {fb['FbApp']}
  FbAlert = {fb['FbAlert']}
  FbHs = {fb['FbHs']}
  FbCcs = {fb['FbCcs']}
  Senders = {senders}
  Limit = 2
  Sizes = {sizes}
  Earlies = {earlies}
  Closes = {closes}
VIEW view
INVARIANTS {' '.join(invariants)}
""")
        if props:
            f.write("PROPERTIES " + " ".join(props) + "\n")
        if emit:
            f.write(f"ACTION_CONSTRAINT {emit}\n")
        if constraint:
            f.write(f"CONSTRAINT {constraint}\n")
        f.write("CHECK_DEADLOCK FALSE\n")


def gen_cfg(name):
    return os.path.join(vlib.SPEC, f"MC_DtlsRecord_{name}.gen.cfg")


def rm(path):
    try:
        os.remove(path)
    except OSError:
        pass


# ------------------------------------------------------------------------------------------ receiver (R)

def edge_key(e):
    return json.dumps([e["role"], e["pre"], e["act"]], sort_keys=True)


def rx_edges(ck, tier, fb=None, sim=None):
    """TLC: design check (OnlyAuthentic) + edge generation (G-edge; with sim: G-sim).
    Returns the path of the de-duplicated edges."""
    name = f"rx_{tier}" + ("_sim" if sim else "")
    cfg = gen_cfg(name)
    write_cfg(cfg, "rx", fb=fb or RX[tier], emit="EmitEdge", **({"reps": sim["reps"]} if sim else {}))
    raw = os.path.join(ck.dir, f"edges_raw_{name}.ndjson")
    res = vlib.tlc("MC_DtlsRecord", os.path.basename(cfg), tags=("EDGE",), sinks={"EDGE": raw},
                   timeout=1500, heap="6g", tag=f"C03{name}",
                   simulate=sim["num"] if sim else None, depth=sim["depth"] if sim else None)
    rm(cfg)
    vlib.tlc_ok(res, name)
    ck.add_tlc(res, name.replace("_", "/", 1))
    seen, rows = set(), []
    with open(raw) as f:
        for line in f:
            e = json.loads(line)
            k = edge_key(e)
            if k not in seen:
                seen.add(k)
                rows.append(e)
    edges = os.path.join(ck.dir, f"edges_{name}.ndjson")
    vlib.write_ndjson(edges, rows)
    rm(raw)
    return edges, rows, res


def sig_rx(case, div):
    a = case["act"]
    return {"sub": "dtlsrec", "kind": "rx", "rule": div.get("rule"), "field": div.get("field"),
            "role": case["role"], "phase": case["phase"], "ct": a["ct"], "cls": a["cls"],
            "region": case.get("region", "")}


def replay_edges(ck, edges_path, label):
    out = os.path.join(ck.dir, f"inject_{label}.ndjson")
    t0 = time.time()
    p = vlib.run_bin(BIN, ["inject", edges_path, out], timeout=2400)
    ck.cov.setdefault("timing_s", {})[f"inject/{label}"] = round(time.time() - t0, 1)
    if p.returncode != 0:
        raise vlib.ToolError(f"dtlsrec inject failed rc={p.returncode}: {p.stderr[-2000:]}")
    rows = vlib.read_ndjson(out)
    summ = [r for r in rows if r.get("type") == "summary"][0]
    tool = [r for r in rows if r.get("type") == "tool"]
    if tool:
        # edges that could not be executed are never a verdict; they turn the run into a tool error
        # unless executed edges already show a violation (finish() decides)
        ck.tool_errors = getattr(ck, "tool_errors", []) + [f"inject/{label}: {len(tool)} edges not executed, e.g. {json.dumps(tool[0])[:300]}"]
    for r in rows:
        if r.get("type") != "divergence":
            continue
        for d in r["divs"]:
            rec = {"case": r["case"], "observed": r["obs"], "divergence": d}
            if d.get("rule") == "EXT":
                ck.drift.append({"role": r["case"]["role"], "phase": r["case"]["phase"], "act": r["case"]["act"],
                                 "field": d["field"], "allowed": d["allowed"], "observed": d["observed"]})
            else:
                ck.divergence(sig_rx(r["case"], d), rec)
    return summ


# ------------------------------------------------------------------------------------------ sender (T)

def tx_model_and_scenarios(ck, tier):
    scen = []
    for (label, senders, sizes, earlies, closes, explore) in TX[tier]:
        cfg = gen_cfg(f"tx_{label}_{tier}")
        sink = os.path.join(ck.dir, f"scen_{label}.ndjson")
        write_cfg(cfg, "tx", senders=senders, sizes=sizes, earlies=earlies, closes=closes,
                  invariants=["TypeOK", "NonceUnique", "EpochProtected", "RecordLimit", "Carried", "EmitScen"],
                  constraint="ScenOnly")   # emission runs are single-worker: scenarios only, no exploration
        res = vlib.tlc("MC_DtlsRecord", os.path.basename(cfg), tags=("SCEN",), sinks={"SCEN": sink},
                       timeout=2400 if tier == "thorough" else 900, heap="6g", tag=f"C03tx{label}")
        rm(cfg)
        vlib.tlc_ok(res, f"tx/{label}")
        if explore:
            # the interleaving check proper: run it with several workers, without emission
            cfg = gen_cfg(f"txmc_{label}_{tier}")
            write_cfg(cfg, "tx", senders=senders, sizes=sizes, earlies=earlies, closes=closes)
            res2 = vlib.tlc("MC_DtlsRecord", os.path.basename(cfg), timeout=2400 if tier == "thorough" else 900,
                            workers=8, heap="6g", tag=f"C03txmc{label}")
            rm(cfg)
            vlib.tlc_ok(res2, f"tx-mc/{label}")
            ck.add_tlc(res2, f"tx/{label}/interleavings")
        else:
            ck.add_tlc(res, f"tx/{label}/scenarios")
        for s in vlib.read_ndjson(sink):
            s["label"] = label
            scen.append(s)
    return scen


def concretise(scen, tier):
    """TLC scenario -> harness scenario lines (both roles as sender)."""
    reps = REPS[tier]
    rows, seen_early = [], set()
    for s in scen:
        k = len(s["sizes"])
        for role in ("client", "server"):
            if s["early"]:
                key = (k, role)
                if key in seen_early:
                    continue  # early callers always submit 3 small payloads: sizes and close do not matter
                seen_early.add(key)
                rows.append({"sender": role, "sizes": [[1]] * k, "reps": reps["early"], "early": True, "close": "none",
                             "label": s["label"]})
            else:
                burst = s["label"] == "K8"
                rows.append({"sender": role, "sizes": [[u] for u in s["sizes"]], "close": s["close"], "early": False,
                             "reps": reps["burst"] // (1 + max(s["sizes"])) if burst else reps["normal"],
                             "label": s["label"]})
    return rows


def run_egress(ck, rows, label):
    sp = os.path.join(ck.dir, f"scen_{label}.ndjson")
    out = os.path.join(ck.dir, f"egress_{label}.ndjson")
    trace = os.path.join(ck.dir, f"trace_{label}.ndjson")
    vlib.write_ndjson(sp, rows)
    t0 = time.time()
    p = vlib.run_bin(BIN, ["egress", sp, out, trace], timeout=2400)
    ck.cov.setdefault("timing_s", {})[f"egress/{label}"] = round(time.time() - t0, 1)
    if p.returncode != 0:
        raise vlib.ToolError(f"dtlsrec egress failed rc={p.returncode}: {p.stderr[-2000:]}")
    res = vlib.read_ndjson(out)
    tool = [r for r in res if r.get("type") == "tool"]
    if tool:
        raise vlib.ToolError(f"dtlsrec egress: {len(tool)} scenarios could not be set up, e.g. {tool[0]}")
    for r in res:
        if r.get("type") == "scenario":
            if r["panics"]:
                ck.divergence({"sub": "dtlsrec", "kind": "tx", "rule": "NoPanic"}, r)
            if r["send_errors"]:
                ck.notes.append(f"send() errors in scenario {r['scenario']}: {r['send_errors'][:2]}")
            if not r["all_captured"]:
                ck.notes.append(f"scenario {r['scenario']}: capture incomplete (loopback loss); completeness not judged")
    return trace, res


def validate_trace(ck, trace, label):
    """Trace_DtlsRecord.tla: returns (n_events, bad list)."""
    sink = os.path.join(ck.dir, f"bad_{label}.ndjson")
    env = {"TRACE": trace, "JAVA_TOOL_OPTIONS": "-Xmx6g -Xss1g -Dtlc2.tool.queue.IStateQueue=StateDeque"}
    res = vlib.tlc("Trace_DtlsRecord", "Trace_DtlsRecord.cfg", workers=1, tags=("BAD",), sinks={"BAD": sink},
                   timeout=2400, env=env, heap="6g", tag=f"C03trace{label}", seed_arg=False,
                   extra=("-checkpoint", "0"))   # StateDeque cannot checkpoint
    vlib.tlc_ok(res, "trace")
    rows = vlib.read_ndjson(sink)
    if not rows:
        raise vlib.ToolError("trace validation did not reach the end of the trace")
    ck.add_tlc(res, f"trace/{label}")
    return rows[-1]["n"], rows[-1]["bad"]


C03_TX_RULES = {"NonceUnique", "EpochProtected", "Encrypted", "RecordLimit", "PayloadCarried"}


def judge_trace(ck, trace, bad, rows):
    ev = vlib.read_ndjson(trace)
    scen = None
    scen_of = {}
    for i, e in enumerate(ev, start=1):
        if e["ev"] == "reset":
            scen = e["scenario"]
        scen_of[i] = scen
    for idx, rule in bad:
        e = ev[idx - 1]
        sc = scen_of[idx]
        rec = {"event_index": idx, "event": e, "scenario": sc, "rule": rule,
               "scenario_def": rows[sc] if sc is not None and sc < len(rows) else None}
        sig = {"sub": "dtlsrec", "kind": "tx", "rule": rule, "ct": e.get("ct"), "ev": e["ev"]}
        if rule in C03_TX_RULES:
            ck.divergence(sig, rec)
        else:
            ck.drift.append(rec)
    return len(ev)


# ------------------------------------------------------------------------------------------ entry points

def run(tier):
    ck = vlib.Check(PID, tier)
    vlib.build_harness([BIN])

    # receiver: transition cover (every (role, phase, record) edge once) ...
    edges_path, edges, res = rx_edges(ck, tier)
    summ = replay_edges(ck, edges_path, tier)
    rm(edges_path)
    n_edges = summ["edges"]
    # ... and random behaviours with their real histories (several records in a row before the probe)
    sim_path, sim_edges, sim_res = rx_edges(ck, tier, fb=SIM_FB, sim=SIM[tier])
    sim_summ = replay_edges(ck, sim_path, tier + "_sim")
    rm(sim_path)
    keyed = [e for e in edges if e["keys"]]
    unauth = [e for e in keyed if not e["authentic"]]
    ck.cov["rx"] = {"edges": n_edges, "after_keys": len(keyed), "unauthentic_after_keys": len(unauth),
                    "pairs_built": summ["pairs"],
                    "flip_positions": sum(1 for e in edges if e["act"]["cls"] == "e1-flip"),
                    "sim": {"behaviours": SIM[tier]["num"], "depth": SIM[tier]["depth"], "edges": sim_summ["edges"],
                            "histories": len({json.dumps([e["role"], e["pre"]]) for e in sim_edges}),
                            "unrealised": sim_summ["unrealised"], "pairs_built": sim_summ["pairs"],
                            "max_records_before_probe": sim_summ["max_records_before_probe"]},
                    "max_records_before_probe": summ["max_records_before_probe"],
                    "observed_outcomes": [o for o in summ["observed"] if "e1-flip" not in o[0] and "e1-trunc" not in o[0]][:120]}
    exhaustive_rx = res["finished"] and n_edges == len(edges)

    # sender
    scen = tx_model_and_scenarios(ck, tier)
    rows = concretise(scen, tier)
    trace, eg = run_egress(ck, rows, tier)
    n_ev, bad = validate_trace(ck, trace, tier)
    judge_trace(ck, trace, bad, rows)
    eg_sum = [r for r in eg if r.get("type") == "summary"][0]
    n_records = sum(r["records"] for r in eg if r.get("type") == "scenario")
    ck.cov["tx"] = {"scenarios": len(rows), "records_captured": n_records, "trace_events": n_ev,
                    "lossy_scenarios": eg_sum["lossy_scenarios"], "rules_broken": len(bad)}

    rm(trace)
    ck.cov["traces_validated_against_impl"] = n_edges + sim_summ["edges"] - sim_summ["unrealised"] + len(rows)
    ck.cov["evaluations"] = n_edges + sim_summ["edges"] - sim_summ["unrealised"] + n_records
    ck.cov["distinct_nontrivial"] = len({edge_key(e) for e in keyed}) + len({edge_key(e) for e in sim_edges if e["keys"]}) + \
        len({json.dumps([r["sender"], r["sizes"], r["close"], r["early"]]) for r in rows})
    ck.cov["exhaustive"] = bool(exhaustive_rx)
    ck.cov["rule"] = ("rx: every (role, phase, record) edge of the DtlsRecord model - content type x authenticity class "
                      "(plaintext epoch 0 incl. forged Finished/Certificate/HelloVerifyRequest at the expected and next "
                      "message_seq, authentic, replay, bad tag, wrong key, other-direction key, reflection, retyped, "
                      "truncated x5, every single bit flipped, epoch rewritten, sealed for epoch 2) x source {peer, "
                      "stranger} - injected into a live pair in that phase; non-trivial = keys exist in the phase. "
                      "tx: TLC-generated plans (1-8 concurrent callers, sizes around multiples of the 1200-byte limit, "
                      "early callers racing the handshake, close at the end) run with real concurrency; every captured "
                      "record is validated by Trace_DtlsRecord")
    samples = [e for e in unauth if e["act"]["cls"] in ("e0-plain", "e1-retype", "e1-reflect")][:4] + \
              [e for e in unauth if e["act"]["cls"] == "e1-flip"][:2] + rows[:2]
    ck.cov["samples"] = samples
    ck.assumptions += [
        "receiver phases: no keys / keys derived but handshake unfinished / connected / closed by an authentic close_notify, "
        "both roles; 'closed by local close()' ends the DTLS task (nothing is processed any more) and is not injected into",
        "single records per datagram; flip/truncate classes are built from genuine captured records (ApplicationData, "
        "Finished) and, for alerts/CCS, from records sealed with the negotiated keys read from DtlsState::Connected",
        "an authentic replay and a record sealed for epoch 2 authenticate under the negotiated keys: the property does not "
        "forbid acting on them (the code has no anti-replay window; noted, not judged)",
        "sender interleavings are exhaustive in the model for 3 callers (TLC); on the implementation they are sampled by real "
        "concurrency on an 8-thread runtime, every emitted record being checked",
        "trusted: TLC, the harness' AES-GCM record codec (aes-gcm crate), loopback FIFO delivery per socket",
    ]
    finish(ck)


def finish(ck):
    """Violations on executed cases stand; cases that could not be executed are a tool error otherwise."""
    te = getattr(ck, "tool_errors", [])
    ck.notes += te
    if te and not ck.violations:
        raise vlib.ToolError("; ".join(te)[:1500])
    ck.finish()


def replay(path):
    """Re-run one recorded violation (receiver edge or sender scenario)."""
    ck = vlib.Check(PID, "quick")
    vlib.build_harness([BIN])
    with open(path) as f:
        rec = json.load(f)["record"]
    if "case" in rec:
        ep = os.path.join(ck.dir, "replay_one_edge.ndjson")
        vlib.write_ndjson(ep, [rec["case"]])
        summ = replay_edges(ck, ep, "one")
        ck.cov.update(states=1, transitions=1, traces_validated_against_impl=summ["edges"], samples=[rec["case"]])
    else:
        sd = rec.get("scenario_def")
        if not sd:
            raise vlib.ToolError("the recorded violation carries no scenario")
        trace, _ = run_egress(ck, [sd], "one")
        n_ev, bad = validate_trace(ck, trace, "one")
        judge_trace(ck, trace, bad, [sd])
        ck.cov.update(traces_validated_against_impl=1, samples=[sd])
    finish(ck)


def selftest():
    """Negative controls that need no mutation of /repo:
    (i) each named deviation switched on violates its property in TLC;
    (ii) corrupting one field of a recorded wire trace is reported by the trace validation;
    (iii) an edge whose expectation is corrupted is reported by the replayer."""
    ck = vlib.Check(PID + "-selftest", "quick")
    ok = True
    want = {"Epoch0AppDataDelivered": ("rx", "OnlyAuthentic"), "Epoch0AlertHonoured": ("rx", "OnlyAuthentic"),
            "Epoch0HandshakeAdvances": ("rx", "OnlyAuthentic"), "PublishBeforeCounters": ("tx", "EpochProtected"),
            "AlertUsesHandshakeSeq": ("tx", "NonceUnique"), "AlertKeepsSeq": ("tx", "NonceUnique"),
            "LoadStoreSeq": ("tx", "NonceUnique")}
    for dev, (part, prop) in want.items():
        cfg = gen_cfg(f"selftest_{dev}")
        if part == "rx":
            write_cfg(cfg, "rx", deviations='{"%s"}' % dev, fb=dict(FbApp=8, FbAlert=8, FbHs=8, FbCcs=8))
        else:
            write_cfg(cfg, "tx", deviations='{"%s"}' % dev, senders="{1, 2}", sizes="{1, 3}",
                      earlies="{FALSE, TRUE}", closes='{"none", "end", "mid"}')
        res = vlib.tlc("MC_DtlsRecord", os.path.basename(cfg), timeout=600, workers=4, tag=f"C03self{dev}")
        rm(cfg)
        hit = any(prop in e for e in res["errors"])
        print(f"selftest: deviation {dev} violates {prop}: {hit}")
        ok &= hit
    # (ii)
    vlib.build_harness([BIN])
    rows = [{"sender": "client", "sizes": [[3], [2]], "reps": 2, "close": "mid", "early": False}]
    trace, _ = run_egress(ck, rows, "selftest")
    n, bad = validate_trace(ck, trace, "selftest")
    print(f"selftest: genuine trace accepted: {bad == []} ({n} events)")
    ok &= bad == []
    ev = vlib.read_ndjson(trace)
    recs = [i for i, e in enumerate(ev) if e["ev"] == "rec" and e["ct"] == 23]
    for field, val, rule in (("seq", ev[recs[0]]["seq"], "NonceUnique"), ("epoch", 0, "EpochProtected"),
                             ("enc", False, "Encrypted"), ("ptlen", 1201, "RecordLimit")):
        ev2 = [dict(e) for e in ev]
        tgt = recs[1]
        ev2[tgt][field] = val
        if field == "seq":
            ev2[tgt]["nonce"] = ev[recs[0]]["nonce"]
        t2 = os.path.join(ck.dir, "trace_selftest_corrupt.ndjson")
        vlib.write_ndjson(t2, ev2)
        n, bad = validate_trace(ck, t2, "selftest2")
        hit = [tgt + 1, rule] in bad
        print(f"selftest: corrupted {field} reported as {rule}: {hit}")
        ok &= hit
    # (iii)
    start = {"rec": {"ct": "", "cls": "start", "src": "", "pos": -1, "how": "", "rep": 1}, "to": "Connected"}
    e = {"role": "client", "phase": "Connected", "pre": [start], "region": "", "authentic": True, "keys": True,
         "act": {"ct": "AppData", "cls": "e1-auth", "src": "peer", "pos": -1, "how": "", "bits": 0, "rep": 1},
         "exp": {"delivered": {"allowed": [0], "rule": "OnlyAuthentic"}, "state": {"allowed": ["Connected"], "rule": "OnlyAuthentic"}}}
    ep = os.path.join(ck.dir, "selftest_edge.ndjson")
    vlib.write_ndjson(ep, [e])
    replay_edges(ck, ep, "selftest")
    hit = len(ck.violations) == 1
    print(f"selftest: corrupted edge expectation reported by the replayer: {hit}")
    ok &= hit
    raise SystemExit(0 if ok else 2)
