"""EXT04 - the NACK -> retransmission -> unwrap loop end to end through RtpTransport (sender NACK handler + transport on a
loopback socket, receiver gap detector, RTCP / RTP wire codecs, RTX unwrap). Specification growth beyond the listed
properties: every finding is DRIFT (exit 0); nothing here can print VIOLATION.

spec/NackLoop.tla + MC_NackLoop.tla, harness/src/bin/nackloop.rs. See checks/_ext.py for the common shape."""
import json
import os

import _ext
import vlib

PID = "EXT04"
PINNED = '{"FirstMarkerNotBuffered"}'

TIERS = {
    "quick": dict(contract_len=6, maxlen=6, sim=1500, simdepth=12, caps="{2, 4}"),
    "thorough": dict(contract_len=7, maxlen=7, sim=15000, simdepth=18, caps="{1, 2, 4}"),
}


def cfg_text(t, maxlen, deviations, emit=None, inv="Bounded Restores Answered Accounting", view=False):
    return f"""SPECIFICATION Spec
CONSTANTS
  Caps = {t['caps']}
  RtxModes = {{TRUE, FALSE}}
  MaxLen = {maxlen}
  Deviations = {deviations}
{'VIEW view' if view else ''}
INVARIANTS {inv}
ACTION_CONSTRAINT {emit or 'NoEmit'}
CHECK_DEADLOCK FALSE
"""


def run(tier):
    ck = vlib.Check(PID, tier)
    vlib.build_harness(["nackloop"])
    t = TIERS[tier]
    big = 3000 if tier == "thorough" else 600
    res = _ext.tlc_plain("MC_NackLoop", cfg_text(t, t["contract_len"], "{}"), f"MC_NackLoop_{PID}_{tier}_contract",
                         timeout=big, workers=8)
    vlib.tlc_ok(res, "contract, Deviations = {}")
    ck.add_tlc(res, "contract/Deviations={}")
    # the departure on the model, with a printed witness
    wf = os.path.join(ck.dir, f"witness_{tier}.ndjson")
    cfgp = os.path.join(vlib.SPEC, f"MC_NackLoop_{PID}_{tier}_dev.gen.cfg")
    _ext.write(cfgp, cfg_text(t, 4, PINNED, inv="Bounded W_Restores Answered Accounting"))
    r = vlib.tlc("MC_NackLoop", os.path.basename(cfgp), tags=("EDGE",), sinks={"EDGE": wf}, timeout=600, heap="4g",
                 tag=f"MC_NackLoop_{PID}_dev")
    os.remove(cfgp)
    ck.cov["model_deviation_findings"] = {"FirstMarkerNotBuffered": _ext.violated(r) or ["(no rule violated)"]}
    files = [wf]
    for name, text, sim in [("bfs", cfg_text(t, t["maxlen"], PINNED, emit="EmitEdge", inv="Bounded", view=True), None),
                            ("sim", cfg_text(t, t["simdepth"], PINNED, emit="EmitEdge", inv="Bounded"), t["sim"])]:
        p = os.path.join(ck.dir, f"edges_{tier}_{name}.ndjson")
        rr = _ext.tlc_edges("MC_NackLoop", text, f"MC_NackLoop_{PID}_{tier}_{name}", p, timeout=big,
                            simulate=sim, depth=(t["simdepth"] + 1) if sim else None)
        ck.add_tlc(rr, f"G-{'sim' if sim else 'edge'}/pinned")
        files.append(p)
    allp = os.path.join(ck.dir, f"edges_{tier}.ndjson")
    n = _ext.dedup_edges(files, allp)
    for p in files:
        os.remove(p)
    rows, summ = _ext.replay_sharded("nackloop", allp, ck.dir, tier, shards=16, timeout=big)
    with open(allp) as f:
        for i, line in enumerate(f):
            if i in (30, 3000):
                ck.cov["samples"].append(json.loads(line))
            if i > 3000:
                break
    os.remove(allp)
    first = _ext.rows_to_drift(ck, rows)
    ck.cov.update(traces_validated_against_impl=summ.get("edges", 0), evaluations=summ.get("edges", 0),
                  distinct_nontrivial=n, field_checks=summ.get("checks", 0),
                  skipped_timing_ambiguous=summ.get("skipped_timing_ambiguous", 0),
                  drift_signatures=summ.get("per_signature", {}), exhaustive=summ.get("edges", 0) == n)
    ck.cov["rule"] = ("every (state, action) edge of the bounded pinned NackLoop model (G-edge) and every step of random deep "
                      "behaviours (G-sim) runs in a fresh world of real objects (sender NACK handler, RtpTransport on a "
                      "loopback socket, receiver gap detector, wire codecs, RTX unwrap); the report as parsed by the sender, "
                      "the retransmissions read back from the wire (index, RTX ordinal, marker), recoveries and all counters "
                      "are compared with the model (class replay); Restores / Answered / RtxNumbers / Accounting are judged "
                      "on the real packets (class contract)")
    ck.assumptions += [
        "EXT: beyond the listed properties; findings are DRIFT only",
        "one synchronous report round per delivered packet; retransmissions of a round are all lost or all delivered; "
        "foreign reports ask for packets at or below the receiver's highest, or never sent",
        "the 25 ms resend cooldown is real time: 'within the cooldown' is measured (edge skipped if not), 'after' is a 31 ms sleep",
    ]
    for (typ, field), rr in first.items():
        if typ == "panic":
            ck.notes.append(f"PANIC in code under test: {str(rr.get('observed'))[:200]}")
    ck.finish()


def replay(path):
    raise vlib.ToolError("EXT checks record no violation files")
