"""C08 - generated answers are valid answers to the offer they respond to; print/parse round trip.

Answer.tla defines the RELATION ValidAnswer(offer, mode, answer) (one named rule per clause of the
statement).  MC_Answer.tla is the offer enumerator (TLC, exhaustive over a small offer space and
-simulate over a large one) and checks that the relation is satisfiable (reject-all) and satisfied by a
textbook intersection answerer for every generated offer.  harness/answer renders each abstract offer to
SDP, applies it to a real PeerConnection configured as the record says (first or subsequent negotiation),
calls create_answer, abstracts the answer back and records {offer, cfg, answer, accepted, roundtrip_ok}.
Trace_Answer.tla (TLC) evaluates the relation on every record and prints the broken rules."""
import json
import os
import vlib

PID = "C08"


def S(xs):
    return "{" + ", ".join(('"%s"' % x) if isinstance(x, str) else str(x).upper() for x in xs) + "}"


ALL_KINDS = ("audio", "video", "application", "image")
ALL_CFG = dict(Modes=("WebRtc", "Srtp", "Rtp"), Compats=("Standard", "LegacySip"), Caps=("default", "pcmu", "custom"),
               Pres=("none", "audio", "audio_video", "video_audio", "dc"), Negs=("first", "subsequent", "grow", "swapped"))


def scen(label, maxsec, menus, sim=None, depth=None, **kw):
    d = dict(label=label, MinSec=1, MaxSec=maxsec, Sims=(False,), Port0s=(False,), Extras=("none",), Kinds=ALL_KINDS,
             SNames=("dash",), OUsers=("dash",), SessOpts=("none",), FlagAttrs=(False,), Trickies=(False,), Blanks=(False,),
             Eols=("crlf",), SetupLevels=("media",), MidSchemes=("numeric", "named", "absent"),
             BundleModes=("none", "all"), Setups=("actpass", "none"), Dirs=("sendrecv", "sendonly"),
             Muxes=(True, False), menus=menus, sim=sim, **ALL_CFG)
    d.update(kw)
    return d


FULL = ("AudioPtsFull", "VideoPtsFull", "ExtFull")
SMALL = ("AudioPtsSmall", "VideoPtsSmall", "ExtSmall")
ALL_DIRS = ("sendrecv", "sendonly", "recvonly", "inactive")
ALL_SETUPS = ("actpass", "active", "passive", "none")

# the "line form" of the peer's text (what the parser sees for the same abstract description)
FORMS = dict(SNames=("dash", "space", "empty", "words"), OUsers=("dash", "name"), SessOpts=("none", "c", "bi", "all"),
             FlagAttrs=(True, False), Trickies=(True, False), Blanks=(True, False), Eols=("crlf", "lf"))
NEW_DIMS = dict(Sims=(True, False), Port0s=(True, False), Extras=("none", "sip", "browser"),
                SetupLevels=("media", "session"), **FORMS)
TIERS = {
    "quick": [
        # exhaustive: every single-section offer of the small menus x mid scheme x bundle, for every mode,
        # capability profile and first/subsequent negotiation
        scen("exhaustive/1-section", 1, SMALL, Compats=("Standard",), Pres=("none",), Negs=("first", "subsequent")),
        # pseudo-random samples of the large space (full menus incl. RTX-heavy video, simulcast/rid, rejected sections,
        # extra peer lines; every configuration dimension; first/subsequent/grow/swapped negotiation)
        # exhaustive over the line forms (4 x 2 x 4 x 2^4 = 512) of one plain section of each kind, in every mode:
        # the parsed-side round trip with every session-level line form
        scen("exhaustive/line-forms", 1, ("AudioPtsOne", "VideoPtsOne", "ExtNone"), Compats=("Standard",), Pres=("none",),
             Caps=("default",), Negs=("first",), MidSchemes=("numeric",), BundleModes=("none",), Dirs=("sendrecv",),
             Muxes=(True,), **FORMS),
        # exhaustive over extension-id forms (two-byte ids, local default id taken by another URI) x setup value x
        # setup at media/session level x first / same-ids re-offer / re-offer that moves the URIs to other ids
        scen("exhaustive/ext-ids+setup", 1, ("AudioPtsOne", "VideoPtsOne", "ExtIdForms"), Kinds=("audio", "video"),
             Pres=("none",), Caps=("default",), Negs=("first", "subsequent", "moved"), MidSchemes=("numeric",),
             BundleModes=("none",), Dirs=("sendrecv",), Muxes=(True,), Setups=ALL_SETUPS, SetupLevels=("media", "session")),
        scen("random/1-3-sections", 3, FULL, sim=5000, Dirs=ALL_DIRS, Setups=ALL_SETUPS,
             BundleModes=("none", "all", "first2"), **NEW_DIMS),
        scen("random/4-6-sections", 6, FULL, sim=1500, MinSec=4, Dirs=ALL_DIRS, Setups=ALL_SETUPS,
             BundleModes=("none", "all", "first2"), **NEW_DIMS),
    ],
    "thorough": [
        scen("exhaustive/1-section/full", 1, FULL, Dirs=ALL_DIRS, Setups=ALL_SETUPS, Pres=("none", "audio_video"),
             Compats=("Standard",), Muxes=(True,), Negs=("first", "subsequent")),
        scen("exhaustive/1-section/compat", 1, SMALL, Pres=("none", "audio", "dc"), Negs=("first", "subsequent")),
        scen("exhaustive/1-section/variants", 1, SMALL, Compats=("Standard",), Pres=("none",), Caps=("default", "custom"),
             Negs=("first", "swapped"), Sims=(True, False), Port0s=(True, False), Extras=("none", "sip", "browser")),
        scen("exhaustive/2-sections", 2, SMALL, Compats=("Standard",), Pres=("none",), Negs=("first", "subsequent", "grow")),
        scen("random/1-6-sections", 6, FULL, sim=300000, Dirs=ALL_DIRS, Setups=ALL_SETUPS,
             BundleModes=("none", "all", "first2"), **NEW_DIMS),
    ],
}


def tlc_retry(*a, **kw):
    """vlib.tlc, retried when TLC lost its (shared, sometimes cleaned) metadir or was starved by the machine."""
    for attempt in range(3):
        res = vlib.tlc(*a, **kw)
        lost = any("writing the disk" in e or "No such file" in e for e in res["errors"] + res["raw_tail"][-30:])
        if not lost:
            return res
        vlib.log(f"TLC lost its metadir (attempt {attempt + 1}); retrying")
    return res


def write_cfg(path, sc, invariants, deviations="{}"):
    a, v, e = sc["menus"]
    with open(path, "w") as f:
        f.write(f"""SPECIFICATION Spec
CONSTANTS
  MinSec = {sc['MinSec']}
  MaxSec = {sc['MaxSec']}
  Sims = {S(sc['Sims'])}
  Port0s = {S(sc['Port0s'])}
  Extras = {S(sc['Extras'])}
  SNames = {S(sc['SNames'])}
  OUsers = {S(sc['OUsers'])}
  SessOpts = {S(sc['SessOpts'])}
  FlagAttrs = {S(sc['FlagAttrs'])}
  Trickies = {S(sc['Trickies'])}
  Blanks = {S(sc['Blanks'])}
  Eols = {S(sc['Eols'])}
  SetupLevels = {S(sc['SetupLevels'])}
  Kinds = {S(sc['Kinds'])}
  MidSchemes = {S(sc['MidSchemes'])}
  BundleModes = {S(sc['BundleModes'])}
  Setups = {S(sc['Setups'])}
  AudioPts <- {a}
  VideoPts <- {v}
  ExtSeqs <- {e}
  Dirs = {S(sc['Dirs'])}
  Muxes = {S(sc['Muxes'])}
  Modes = {S(sc['Modes'])}
  Compats = {S(sc['Compats'])}
  Caps = {S(sc['Caps'])}
  Pres = {S(sc['Pres'])}
  Negs = {S(sc['Negs'])}
  Samples = {sc['sim'] or 0}
  Seed = {vlib.seed() % 40000}
  Deviations = {deviations}
INVARIANTS {invariants}
CHECK_DEADLOCK FALSE
""")


SANITY = "RejectAllValid ReferenceValid EchoOfferInvalidWhenSendOnly"


def gen_offers(ck, sc, tag):
    cfg = os.path.join(vlib.SPEC, f"MC_Answer_{tag}.gen.cfg")
    out = os.path.join(ck.dir, f"offers_{tag}.ndjson")
    write_cfg(cfg, sc, "EmitOffer " + SANITY)
    # sc["sim"] = N > 0: the model draws N seeded random behaviours (RandomElement) instead of enumerating;
    # (TLC's own -simulate evaluates invariants on every successor, i.e. would print whole neighbourhoods)
    res = tlc_retry("MC_Answer", os.path.basename(cfg), tags=("OFFER",), sinks={"OFFER": out}, timeout=3000,
                   workers=1, heap="8g", tag=f"MC_Answer_{tag}")
    os.remove(cfg)
    vlib.tlc_ok(res, sc["label"])
    ck.add_tlc(res, f"{sc['label']}: offer enumeration + sanity of the relation")
    # a simulated behaviour prints its offer once, but different behaviours may build the same one
    import hashlib
    seen, n = set(), 0
    with open(out) as f, open(out + ".dedup", "w") as g:
        for line in f:
            h = hashlib.blake2b(line.encode(), digest_size=12).digest()
            if h not in seen:
                seen.add(h)
                g.write(line)
                n += 1
    os.replace(out + ".dedup", out)
    return out, n, res


def record(ck, offers, tag, jobs):
    out = os.path.join(ck.dir, f"records_{tag}.ndjson")
    p = vlib.run_bin("answer", [offers, out, str(jobs)], timeout=3000)
    if p.returncode != 0:
        raise vlib.ToolError(f"answer recorder failed rc={p.returncode}: {p.stderr[-2000:]}")
    return out


CHUNK = 40000


def validate(ck, records, tag, label):
    """Trace_Answer on the recorded triples (in chunks: TLC loads a whole trace file); returns {i: verdict}."""
    verdicts = {}
    n = 0
    chunk = []

    def flush():
        nonlocal chunk
        if not chunk:
            return
        # TLC reads only what the relation needs
        slim = os.path.join(ck.dir, f"trace_{tag}.ndjson")
        with open(slim, "w") as g:
            g.write("\n".join(chunk) + "\n")
        verd = os.path.join(ck.dir, f"verdicts_{tag}.ndjson")
        res = tlc_retry("Trace_Answer", "Trace_Answer.cfg", tags=("VERDICT",), sinks={"VERDICT": verd}, workers=1,
                       timeout=3000, env={"TRACE": slim}, tag=f"Trace_Answer_{tag}", seed_arg=False, heap="8g")
        vlib.tlc_ok(res, "trace " + label)
        ck.add_tlc(res, f"{label}: Trace_Answer")
        got = vlib.read_ndjson(verd)
        if len(got) != len(chunk):
            raise vlib.ToolError(f"{label}: {len(got)} verdicts for {len(chunk)} records")
        for v in got:
            verdicts[v["i"]] = v
        os.remove(slim)
        os.remove(verd)
        chunk = []

    with open(records) as f:
        for line in f:
            r = json.loads(line)
            if r.get("type") == "tool_error":
                raise vlib.ToolError(f"answer harness: {r}")
            chunk.append(json.dumps({k: r[k] for k in ("i", "offer", "cfg", "answer", "accepted", "roundtrip_ok")},
                                    separators=(",", ":")))
            n += 1
            if len(chunk) >= CHUNK:
                flush()
    flush()
    if len(verdicts) != n:
        raise vlib.ToolError(f"{label}: {len(verdicts)} verdicts for {n} records")
    return verdicts


def sig_of(rule, kind, r, ctx):
    """Structural signature: the rule, the kind of the offending section, and the features of the offer /
    configuration that the rule's outcome can depend on (computed by TLC from the offer, not free text)."""
    c = r["cfg"]
    sig = {"sub": "answer", "rule": rule, "kind": kind, "negotiation": c["neg"], "compat": c["compat"],
           "multi": ctx["nsec"] > 1, "midless": ctx["midless"], "bundled": ctx["bundled"]}
    if rule in ("PtSubset", "RtxEcho"):
        sig["common_codec"] = kind not in ctx["nocommon"]
    if rule == "BundleOffered":
        sig["partial_bundle"] = ctx["partial"]
    if rule == "SetupAcceptable":
        sig["mode"] = c["mode"]
    return sig


def classify(ck, records, verdicts, label, stats):
    with open(records) as f:
        for line in f:
            r = json.loads(line)
            v = verdicts[r["i"]]
            stats["records"] += 1
            if not r["render_ok"]:
                raise vlib.ToolError(f"{label}: renderer/abstraction are not inverse on offer {r['i']}: "
                                     f"{json.dumps(r['offer'])[:300]} vs {json.dumps(r.get('render_back'))[:300]}")
            if not r["accepted"]:
                stats["not_accepted"] += 1
                na = r.get("not_accepted", {})
                if "panic" in json.dumps(na):
                    ck.drift.append({"what": "panic while applying an offer (C07 territory)", "cfg": r["cfg"], "detail": na})
                continue
            stats["accepted"] += 1
            # non-vacuity: how often each rule had something to say about an accepted record
            ex = stats.setdefault("exercised", {})
            osecs, asecs = r["offer"]["secs"], r["answer"]["secs"]

            def bump(k, cond):
                if cond:
                    ex[k] = ex.get(k, 0) + 1
            bump("PtSubset: answer lists payload types", any(a["pts"] for a in asecs))
            bump("RtxEcho: answer carries an RTX association", any(a["rtx"] for a in asecs))
            bump("RtxEcho: offered RTX not echoed", any(o["rtx"] and not a["rtx"] for o, a in zip(osecs, asecs)))
            bump("ExtSubset: answer carries extmap lines", any(a["ext"] for a in asecs))
            bump("DirCompatible: offer not sendrecv", any(o["dir"] != "sendrecv" for o in osecs))
            bump("MuxOffered: offer section without rtcp-mux", any(o["kind"] in ("audio", "video") and not o["mux"] for o in osecs))
            bump("BundleOffered: offer has a group", bool(r["offer"]["bundle"]))
            bump("BundleOffered: offer groups only some sections", v["ctx"]["partial"])
            bump("SetupAcceptable: offer active/passive", any(o["setup"] in ("active", "passive") for o in osecs))
            bump("SameMids: offer without mids", v["ctx"]["midless"])
            bump("Same*: more than one section", len(osecs) > 1)
            if r.get("roundtrip_reordered"):
                stats["roundtrip_reordered"] += 1
            for line in r.get("text_lost", []):
                tl = stats.setdefault("text_lost", {})
                tl[line] = tl.get(line, 0) + 1
            for rule in v.get("ext", []):
                e = stats.setdefault("ext", {}).setdefault(rule, {"records": 0, "example": {
                    "cfg": r["cfg"],
                    "offer": [[o["kind"], o["port0"], o.get("sim"), o["fmts"]] for o in r["offer"]["secs"]],
                    "answer": [[a["kind"], a["port0"], a.get("sim"), a.get("fmts")] for a in r["answer"]["secs"]]}})
                e["records"] += 1
            if not v["failed"]:
                continue
            stats["invalid"] += 1
            kinds = {}
            for rule, kind in v["kinds"]:
                kinds.setdefault(rule, set()).add(kind)
            case = {"offer": r["offer"], "cfg": r["cfg"], "prev": r.get("prev"), "extras": r.get("extras", "none"), "form": r.get("form"), "scenario": label}
            for rule in v["failed"]:
                for kind in sorted(kinds.get(rule, {"-"})):
                    rec = {"rule": rule, "kind": kind, "case": case, "answer": r["answer"],
                           "roundtrip": r.get("roundtrip") if rule == "RoundTrip" else None}
                    ck.divergence(sig_of(rule, kind, r, v["ctx"]), rec)


def run(tier):
    ck = vlib.Check(PID, tier)
    vlib.build_harness(["answer"])
    jobs = min(12, vlib.NCPU)
    stats = dict(records=0, accepted=0, not_accepted=0, invalid=0, roundtrip_reordered=0)
    exhaustive = True
    for i, sc in enumerate(TIERS[tier]):
        tag = f"{tier}{i}"
        offers, n, res = gen_offers(ck, sc, tag)
        if not sc["sim"]:
            exhaustive = exhaustive and res["finished"]
        records = record(ck, offers, tag, jobs)
        verdicts = validate(ck, records, tag, sc["label"])
        before = {k: v for k, v in stats.items() if isinstance(v, int)}
        classify(ck, records, verdicts, sc["label"], stats)
        ck.notes.append({"label": sc["label"], "offers": n,
                         **{k: stats[k] - before[k] for k in stats if isinstance(stats[k], int)}})
        with open(offers) as f:
            for j, line in enumerate(f):
                if j in (0, 700, 4000) and len(ck.cov["samples"]) < 6:
                    ck.cov["samples"].append(json.loads(line))
                if j > 4000:
                    break
        for big in (offers, records):  # disk is limited: intermediate files are not kept
            if os.path.getsize(big) > 50_000_000:
                os.remove(big)
    check_witnesses(ck)
    attach_texts(ck)
    ck.notes.append({"rules_exercised_on_accepted_records": stats.get("exercised", {})})
    if stats.get("text_lost"):
        ck.drift.append({"what": "EXT: lines of a parsed peer description that print(parse(text)) does not reproduce "
                                 "(the value round trip parse(print(d)) = d still holds)", "line_prefixes": stats["text_lost"]})
    if stats["roundtrip_reordered"]:
        ck.drift.append({"what": "parse(print(d)) equals d only up to the relative order of attributes with different "
                                 "keys (transport attributes are printed first)", "records": stats["roundtrip_reordered"]})
    for k, e in sorted(stats.get("ext", {}).items()):
        ck.drift.append({"what": "EXT rule " + k + " (sections as [kind, port0, simulcast, formats])", **e})
    ck.cov["traces_validated_against_impl"] = stats["accepted"]
    ck.cov["evaluations"] = stats["records"]
    ck.cov["distinct_nontrivial"] = stats["accepted"]
    ck.cov["exhaustive"] = bool(exhaustive)
    ck.cov["rule"] = ("each distinct (abstract offer, local configuration) pair TLC generated is rendered to SDP, applied "
                      "to a real PeerConnection (set_remote_description + create_answer; after a complete previous "
                      "negotiation when neg = subsequent) and the abstracted answer judged by Trace_Answer under "
                      "SameCount, SameKinds, SameMids, PtSubset, RtxEcho, ExtSubset, ExtInjective, DirCompatible, MuxOffered, BundleOffered, "
                      "SetupAcceptable; RoundTrip = parse(print(d)) = d for the parsed offers and the produced answers. "
                      "non-trivial = offers the stack accepted and answered")
    ck.assumptions += [
        "offer space: menus and dimensions as listed in tlc_runs/notes; exhaustive for the 'exhaustive/*' scenarios, "
        "seeded random sample (TLC -simulate) for 'random/*'",
        "codec identity = lower-cased name/clock(/channels); extension identity = URI",
        "the per-section rules apply to answered sections (present in both descriptions, answer port not 0)",
        "RoundTrip compares SessionDescription values; a difference only in the relative order of attributes with "
        "different keys is EXT (DRIFT)",
        "trusted: the harness' SDP renderer and abstraction (checked to be inverse on every offer), TLC",
    ]
    ck.finish()


def attach_texts(ck):
    """Re-run one example per violation signature with the SDP texts kept, for the replay files."""
    seen, todo = set(), []
    for sig, rec in ck.violations:
        k = json.dumps(sig, sort_keys=True)
        if k not in seen:
            seen.add(k)
            todo.append(rec)
    if not todo:
        return
    todo = todo[:200]
    op = os.path.join(ck.dir, "examples_offers.ndjson")
    vlib.write_ndjson(op, [{"offer": r["case"]["offer"], "cfg": r["case"]["cfg"], "prev": r["case"].get("prev") or r["case"]["offer"],
                            "extras": r["case"].get("extras", "none"), "form": r["case"].get("form")} for r in todo])
    out = os.path.join(ck.dir, "examples_records.ndjson")
    p = vlib.run_bin("answer", [op, out, "2"], timeout=600, env={"VERIF_KEEP_SDP": "1"})
    if p.returncode == 0:
        for rec, row in zip(todo, vlib.read_ndjson(out)):
            rec["offer_sdp"] = row.get("offer_sdp")
            rec["answer_sdp"] = row.get("answer_sdp")


def check_witnesses(ck):
    """Open known findings must still reproduce from their witness; otherwise say so (STALE-FINDING)."""
    entries = [e for e in ck.known.entries if e.get("property") == PID and e.get("status") == "open" and "witness" in e]
    if not entries:
        return
    op = os.path.join(ck.dir, "witness_offers.ndjson")
    vlib.write_ndjson(op, [{"offer": e["witness"]["offer"], "cfg": e["witness"]["cfg"], "prev": e["witness"]["offer"]}
                           for e in entries])
    records = record(ck, op, "witness", 2)
    verdicts = validate(ck, records, "witness", "known-finding witnesses")
    for n, e in enumerate(entries, start=1):
        rules = e["signature"]["rule"]
        rules = rules if isinstance(rules, list) else [rules]
        if not set(rules) & set(verdicts[n]["failed"]):
            print(f"STALE-FINDING: property={PID} {e['id']} witness no longer breaks {'/'.join(rules)}")
            ck.notes.append({"stale_finding": e["id"]})


def replay(path):
    ck = vlib.Check(PID, "quick")
    vlib.build_harness(["answer"])
    with open(path) as f:
        rec = json.load(f)
    case = rec["record"]["case"]
    op = os.path.join(ck.dir, "replay_offer.ndjson")
    vlib.write_ndjson(op, [{"offer": case["offer"], "cfg": case["cfg"], "prev": case.get("prev") or case["offer"],
                            "extras": case.get("extras", "none"), "form": case.get("form")}])
    records = record(ck, op, "replay", 2)
    verdicts = validate(ck, records, "replay", "replay")
    stats = dict(records=0, accepted=0, not_accepted=0, invalid=0, roundtrip_reordered=0)
    classify(ck, records, verdicts, "replay", stats)
    ck.cov.update(traces_validated_against_impl=stats["accepted"], evaluations=1, samples=[case])
    ck.finish()


def selftest():
    """Negative controls on the machinery:
    (i) the reference answerer switched to the pinned code's behaviour (Deviations = {AnswerLocalList}) violates
        ReferenceValid in TLC (the relation is not vacuous);
    (ii) corrupting one field of a recorded (valid) answer makes Trace_Answer reject the record under the matching rule."""
    ck = vlib.Check(PID + "-selftest", "quick")
    ok = True
    sc = scen("selftest", 1, SMALL, Compats=("Standard",), Pres=("none",), Negs=("first",), Modes=("WebRtc",))
    cfg = os.path.join(vlib.SPEC, "MC_Answer_selftest.gen.cfg")
    write_cfg(cfg, sc, SANITY, deviations='{"AnswerLocalList"}')
    res = tlc_retry("MC_Answer", os.path.basename(cfg), timeout=300, workers=2, tag="MC_Answer_selftest")
    os.remove(cfg)
    hit = any("ReferenceValid" in l and "violated" in l for l in res["errors"] + res["raw_tail"])
    print(f"selftest: Deviations={{AnswerLocalList}} violates ReferenceValid: {hit}")
    ok = ok and hit
    vlib.build_harness(["answer"])
    offers, n, _ = gen_offers(ck, sc, "selftest")
    records = record(ck, offers, "selftest", 4)
    rows = vlib.read_ndjson(records)
    verdicts = validate(ck, records, "selftest", "selftest")
    good = [r for r in rows if r["accepted"] and not verdicts[r["i"]]["failed"] and r["answer"]["secs"][0]["kind"] == "video"
            and r["answer"]["secs"][0]["ext"] and r["offer"]["secs"][0]["dir"] == "sendonly"]
    if not good:
        raise vlib.ToolError("selftest: no valid video record with extensions to corrupt")
    base = good[0]

    def corrupt(name, fn, rule):
        nonlocal ok
        r = json.loads(json.dumps(base))
        fn(r["answer"])
        p = os.path.join(ck.dir, f"selftest_{name}.ndjson")
        vlib.write_ndjson(p, [r])
        v = validate(ck, p, f"selftest_{name}", name)[r["i"]]
        hit = rule in v["failed"]
        print(f"selftest: corrupted record ({name}) rejected under {rule}: {hit} (failed={v['failed']})")
        ok = ok and hit

    corrupt("extra_pt", lambda a: a["secs"][0]["pts"].append([127, "vp9/90000"]), "PtSubset")
    corrupt("pt_other_codec", lambda a: a["secs"][0]["pts"].__setitem__(0, [a["secs"][0]["pts"][0][0], "h265/90000"]), "PtSubset")
    corrupt("rtx_not_offered", lambda a: a["secs"][0]["rtx"].append([120, a["secs"][0]["pts"][0][0]]), "RtxEcho")
    corrupt("ext_other_id", lambda a: a["secs"][0]["ext"].__setitem__(0, [a["secs"][0]["ext"][0][0] + 5, a["secs"][0]["ext"][0][1]]), "ExtSubset")
    corrupt("ext_duplicate_id", lambda a: a["secs"][0]["ext"].append([a["secs"][0]["ext"][0][0], "toffset"]), "ExtInjective")
    corrupt("dir", lambda a: a["secs"][0].__setitem__("dir", "sendrecv"), "DirCompatible")
    corrupt("mid", lambda a: a["secs"][0].__setitem__("mid", "zz"), "SameMids")
    corrupt("kind", lambda a: a["secs"][0].__setitem__("kind", "audio"), "SameKinds")
    corrupt("extra_section", lambda a: a["secs"].append(a["secs"][0]), "SameCount")
    corrupt("bundle", lambda a: a["bundle"].append("zz"), "BundleOffered")
    corrupt("setup", lambda a: a["secs"][0].__setitem__("setup", "actpass"), "SetupAcceptable")
    corrupt("mux", lambda a: a["secs"][0].__setitem__("mux", not base["offer"]["secs"][0]["mux"] or True), "MuxOffered") \
        if not base["offer"]["secs"][0]["mux"] else None
    raise SystemExit(0 if ok else 2)
