"""C19 - inbound RTP reaches only the right receiver; bridged streams stay continuous.

Demux.tla / Bridge.tla are checked by TLC (the properties must hold with Deviations = {}) and every
TLC-generated case is replayed on a real RtpTransport (clear RTP mode, public API only):
 * demux, G-edge: every (registry state, packet) edge of the bounded model, with a shortest history that
   reaches the state, PLUS probe edges: after every transition that forgets something (clear_listeners,
   removal of a closed listener, pruning, re-registration, list replacement, re-binding) and after every
   packet some branch took, all packets are probed with the history *through* that transition;
 * demux, G-sim: TLC -simulate prints every out-edge of every state on random deep paths, each with its
   real, unmerged history;
 * bridge, G-bounded: every bounded behaviour of the rewrite bridge (no state merging); the datagrams read
   back at the target's peer socket are compared field by field with the model's output.
"""
import json
import os
import threading
import vlib

PID = "C19"
BIN = "demux"
NSHARD = 6

# deviations of the code that the generator model follows (so that replay states stay aligned): none -
# both deviations found on the pinned tree (KF-C19-1, KF-C19-2) are fixed in /repo
GEN_DEVIATIONS = "{}"

D3 = dict(Ls="{1, 2, 3}", Ssrcs="{1, 2}", Pts="{1, 2}", Mids="{1, 2}", Rids="{1}", Ext="ExtBoth")
D2 = dict(Ls="{1, 2}", Ssrcs="{1, 2}", Pts="{1, 2}", Mids="{1, 2}", Rids="{1}", Ext="ExtBoth")

# label -> constants; Probe / PktProbe = longest history (incl. the transition) that gets probe edges;
# sim = (behaviours, depth) turns the run into a simulation pass (no probes: histories are real anyway)
DEMUX_CFG = {
    "quick": [
        ("L3/len4", dict(D3, MaxLen=4, Probe=3, PktProbe=2)),
        ("L2/len5", dict(D2, MaxLen=5, Probe=4, PktProbe=3)),
        ("L2/ext/len4", dict(D2, Ssrcs="{1}", Ext="ExtAll", MaxLen=4, Probe=3, PktProbe=3)),
        ("L2/extras/len4", dict(D2, MaxLen=4, Probe=3, PktProbe=2, Extras='{"full", "ext"}')),
        ("L2/bridge/len4", dict(D2, Ssrcs="{1}", MaxLen=4, Probe=4, PktProbe=3, Extras='{"bridge"}')),
        ("L3/sim", dict(D3, MaxLen=12, Probe=0, PktProbe=0, sim=(250, 12), Extras='{"full", "ext", "bridge"}')),
    ],
    "thorough": [
        # probes (incl. the binding table: an id-less probe of each SSRC shows whom it is bound to) through every
        # forgetting transition of every history of 5 actions, and after every taken packet up to history 4
        ("L3/len5", dict(D3, MaxLen=5, Probe=5, PktProbe=4)),
        ("L2/len6", dict(D2, MaxLen=6, Probe=5, PktProbe=4)),
        ("L2/full", dict(D2, MaxLen=40, Probe=0, PktProbe=0)),
        ("L3/ext/len4", dict(D3, Rids="{1, 2}", Ext="ExtAll", MaxLen=4, Probe=3, PktProbe=2)),
        ("L2/extras/len5", dict(D2, MaxLen=5, Probe=4, PktProbe=3, Extras='{"full", "ext"}')),
        ("L3/extras/len4", dict(D3, MaxLen=4, Probe=3, PktProbe=2, Extras='{"full", "ext"}')),
        ("L2/bridge/len5", dict(D2, MaxLen=5, Probe=5, PktProbe=4, Extras='{"bridge"}')),
        ("L3/sim", dict(D3, MaxLen=16, Probe=0, PktProbe=0, sim=(3000, 16), Extras='{"full", "ext", "bridge"}')),
        ("L3/ext/sim", dict(D3, Rids="{1, 2}", Ext="ExtAll", MaxLen=20, Probe=0, PktProbe=0, sim=(1500, 20),
                            Extras='{"full", "ext"}')),
    ],
}

DEMUX_PROPS = ("AtMostOne ChainRespected AmbiguousPtDropped NeverToClosed ClosedRemoved NoCrossSection "
               "OnlyRegistered BindingRule BindingLearnt")


def write_demux_cfg(path, c, emit, deviations=GEN_DEVIATIONS, props=DEMUX_PROPS):
    with open(path, "w") as f:
        f.write(f"""SPECIFICATION Spec
CONSTANTS
  Ls = {c['Ls']}
  Ssrcs = {c['Ssrcs']}
  Pts = {c['Pts']}
  Mids = {c['Mids']}
  Rids = {c['Rids']}
  ExtCfgs <- {c['Ext']}
  MaxLen = {c['MaxLen']}
  ProbeMaxLen = {c.get('Probe', 0)}
  PktProbeMaxLen = {c.get('PktProbe', 0)}
  Extras = {c.get('Extras', '{}')}
  Deviations = {deviations}
VIEW view
INVARIANTS TypeOK
PROPERTIES {props}
ACTION_CONSTRAINT {'EmitPkt' if emit else 'NoEmit'}
CHECK_DEADLOCK FALSE
""")


# receive() racing with the registry API: Begin / Send / Remove with up to Inner control actions per window
CONC_CFG = {
    "quick": [
        ("L2/len6/inner1", dict(Ls="{1, 2}", Ssrcs="{1, 2}", Pts="{1}", Mids="{1}", Rids="{1}", Ext="ExtBoth",
                                MaxLen=6, Inner=1)),
    ],
    "thorough": [
        ("L2/len7/inner2", dict(Ls="{1, 2}", Ssrcs="{1, 2}", Pts="{1}", Mids="{1}", Rids="{1}", Ext="ExtBoth",
                                MaxLen=7, Inner=2)),
        ("L2/wide/len6", dict(Ls="{1, 2}", Ssrcs="{1, 2}", Pts="{1, 2}", Mids="{1, 2}", Rids="{1}", Ext="ExtBoth",
                              MaxLen=6, Inner=1)),
        ("L3/len5/inner1", dict(Ls="{1, 2, 3}", Ssrcs="{1, 2}", Pts="{1}", Mids="{1}", Rids="{1}", Ext="ExtBoth",
                                MaxLen=5, Inner=1, Extras='{"full"}')),
    ],
}

CONC_PROPS = "ConcAtMostOne ConcChain ConcNeverToClosed LiveRegistrationKept ConcClosedRemoved"


def write_conc_cfg(path, c, emit, deviations=GEN_DEVIATIONS):
    with open(path, "w") as f:
        f.write(f"""SPECIFICATION CSpec
CONSTANTS
  Ls = {c['Ls']}
  Ssrcs = {c['Ssrcs']}
  Pts = {c['Pts']}
  Mids = {c['Mids']}
  Rids = {c['Rids']}
  ExtCfgs <- {c['Ext']}
  MaxLen = {c['MaxLen']}
  MaxInner = {c['Inner']}
  Extras = {c.get('Extras', '{}')}
  Deviations = {deviations}
VIEW cview
INVARIANTS CTypeOK
PROPERTIES {CONC_PROPS}
ACTION_CONSTRAINT {'EmitConc' if emit else 'NoEmit'}
CHECK_DEADLOCK FALSE
""")


BRIDGE_CFG = {
    "quick": [
        ("one-source/len4", dict(Sources="SrcOne", PtAlpha="{0, 101}", Tables="TablesQuick", StartTs="StartWrap",
                                 Deltas="DeltasMid", Modes="ModesFixed", MaxLen=4)),
        ("two-sources/len4", dict(Sources="SrcTwo", PtAlpha="{0, 101}", Tables="TablesTwo", StartTs="StartOne",
                                  Deltas="DeltasSmall", Modes="ModesFixed", MaxLen=4)),
        ("modes/len3", dict(Sources="SrcOne", PtAlpha="{0, 96, 101}", Tables="TablesAll", StartTs="StartEdge",
                            Deltas="DeltasSmall", Modes="ModesAll", MaxLen=3)),
        ("video+reinstall/len4", dict(Sources="SrcTwo", PtAlpha="{0, 96}", Tables="TablesAv", StartTs="StartOne",
                                      Deltas="DeltasTwo", Modes="ModesFixed", MaxLen=4, Video="VideoSome",
                                      Reinstalls="TRUE")),
        ("target-fails/len4", dict(Sources="SrcTwo", PtAlpha="{0}", Tables="TablesTwo", StartTs="StartOne",
                                   Deltas="DeltasTwo", Modes="ModesAll", MaxLen=4, Ups="MayFail")),
        # deep random behaviours: TLC prints every continuation of the last step of each simulated behaviour
        ("deep/sim", dict(Sources="SrcTwo", PtAlpha="{0, 96, 101}", Tables="TablesAll", StartTs="StartEdge",
                          Deltas="DeltasFull", Modes="ModesAll", MaxLen=10, sim=(120, 10), Video="VideoSome",
                          Reinstalls="TRUE", Ups="MayFail")),
    ],
    "thorough": [
        ("one-source/len5", dict(Sources="SrcOne", PtAlpha="{0, 101}", Tables="TablesQuick", StartTs="StartWrap",
                                 Deltas="DeltasMid", Modes="ModesFixed", MaxLen=5)),
        ("one-source/full-alphabet/len4", dict(Sources="SrcOne", PtAlpha="{0, 101}", Tables="TablesQuick",
                                               StartTs="StartWrap", Deltas="DeltasFull", Modes="ModesFixed", MaxLen=4)),
        ("two-sources/len5", dict(Sources="SrcTwo", PtAlpha="{0, 101}", Tables="TablesTwo", StartTs="StartOne",
                                  Deltas="DeltasSmall", Modes="ModesFixed", MaxLen=5)),
        ("modes/len4", dict(Sources="SrcOne", PtAlpha="{0, 96, 101}", Tables="TablesAll", StartTs="StartEdge",
                            Deltas="DeltasSmall", Modes="ModesAll", MaxLen=4)),
        ("deep/sim", dict(Sources="SrcTwo", PtAlpha="{0, 96, 101}", Tables="TablesAll", StartTs="StartEdge",
                          Deltas="DeltasFull", Modes="ModesAll", MaxLen=16, sim=(2500, 16), Video="VideoSome",
                          Reinstalls="TRUE", Ups="MayFail")),
        ("target-fails/len5", dict(Sources="SrcTwo", PtAlpha="{0, 96}", Tables="TablesAll", StartTs="StartOne",
                                   Deltas="DeltasTwo", Modes="ModesFixed", MaxLen=5, Ups="MayFail", Video="VideoSome")),
        ("video+reinstall/len5", dict(Sources="SrcTwo", PtAlpha="{0, 96, 101}", Tables="TablesAll", StartTs="StartOne",
                                      Deltas="DeltasTwo", Modes="ModesFixed", MaxLen=5, Video="VideoSome",
                                      Reinstalls="TRUE")),
        ("modes/two-sources/len3", dict(Sources="SrcTwo", PtAlpha="{0, 96, 101}", Tables="TablesAll", StartTs="StartEdge",
                                        Deltas="DeltasSmall", Modes="ModesAll", MaxLen=3)),
    ],
}

BRIDGE_PROPS = "RuleApplied SeqConsecutive TsPreserve Independent"


def write_bridge_cfg(path, c, emit):
    with open(path, "w") as f:
        f.write(f"""SPECIFICATION Spec
CONSTANTS
  Sources <- {c['Sources']}
  PtAlpha = {c['PtAlpha']}
  Tables <- {c['Tables']}
  StartTs <- {c['StartTs']}
  Deltas <- {c['Deltas']}
  Modes <- {c['Modes']}
  Seq0 = 65534
  Off0 <- OffNeg
  Pin = 2147483600
  VideoPts <- {c.get('Video', 'NoVideo')}
  Reinstalls = {c.get('Reinstalls', 'FALSE')}
  Ups <- {c.get('Ups', 'AlwaysUp')}
  MaxLen = {c['MaxLen']}
INVARIANTS TypeOK StableMap
PROPERTIES {BRIDGE_PROPS}
ACTION_CONSTRAINT {'EmitCase' if emit else 'NoEmit'}
CHECK_DEADLOCK FALSE
""")


def sig_of(sub, d):
    cls = d.get("cls") or {}
    s = {"sub": sub, "rule": d.get("rule"), "field": d.get("field")}
    if sub in ("demux", "conc"):
        s.update(by=cls.get("by"), closedHit=cls.get("closedHit"), ambiguousPt=(cls.get("holders", 0) >= 2),
                 identified=cls.get("identified"), fullHit=bool(cls.get("fullHit")))
    else:
        s.update(first=d.get("first"), cont=d.get("cont"))
    return s


def run_sharded(mode, inp, out_prefix, nshard, timeout, hashes=None):
    """Run the harness binary on `inp` in nshard worker processes; return all output rows."""
    outs = [f"{out_prefix}.{i}.ndjson" for i in range(nshard)]
    errs = [None] * nshard

    def work(i):
        try:
            p = vlib.run_bin(BIN, [mode, inp, outs[i], f"{i}/{nshard}"], timeout=timeout)
            if p.returncode != 0:
                errs[i] = f"rc={p.returncode}: {p.stderr[-1500:]}"
        except vlib.ToolError as e:
            errs[i] = str(e)

    th = [threading.Thread(target=work, args=(i,)) for i in range(nshard)]
    for t in th:
        t.start()
    for t in th:
        t.join()
    bad = [e for e in errs if e]
    rows = []
    for o in outs:
        if os.path.exists(o) and not bad:
            rows += vlib.read_ndjson(o)
        hp = o + ".hashes"
        if os.path.exists(hp):
            if hashes is not None and not bad:
                with open(hp, "rb") as f:
                    b = f.read()
                hashes.update(b[k:k + 8] for k in range(0, len(b), 8))
            os.remove(hp)
        if os.path.exists(o):
            os.remove(o)
    if bad:
        raise vlib.ToolError(f"{BIN} {mode} replayer failed: {bad[0]}")
    return rows


def absorb(ck, sub, rows):
    """Turn replayer rows into divergences / drift; return the merged summary."""
    summ = {}
    for r in rows:
        t = r.get("type")
        if t == "summary":
            for k, v in r.items():
                if isinstance(v, (int, float)) and not isinstance(v, bool):
                    summ[k] = summ.get(k, 0) + v
        elif t == "divergence":
            if r.get("rule") == "EXT":
                ck.drift.append({"sub": sub, "field": r.get("field"), "allowed": r.get("allowed"),
                                 "observed": r.get("observed"), "step": r.get("step")})
            else:
                ck.divergence(sig_of(sub, r), r)
        elif t == "drift":
            ck.drift.append({"sub": sub, "kind": r.get("kind", "exact-choice"), "expected": r.get("expected"),
                             "observed": r.get("observed"), "pre": r["case"].get("pre"), "act": r["case"].get("act")})
    return summ


def tlc_jobs(tier):
    """All TLC runs of a tier (design check + generator in one run each); executed concurrently because an
    emission run is single-worker by convention."""
    jobs = []
    for label, consts in DEMUX_CFG[tier]:
        jobs.append(dict(sub="demux", label=label, consts=consts, module="MC_Demux", tagname="EDGE"))
    for label, consts in CONC_CFG[tier]:
        jobs.append(dict(sub="conc", label=label, consts=consts, module="MC_DemuxConc", tagname="EDGE"))
    for label, consts in BRIDGE_CFG[tier]:
        jobs.append(dict(sub="bridge", label=label, consts=consts, module="MC_Bridge", tagname="CASE"))
    return jobs


def run_tlc_job(ck, tier, j):
    # every file of a run carries the process id: two concurrent runs of this check must not share files
    tag = j["label"].replace("/", "_") + f".{os.getpid()}"
    cfg = os.path.join(vlib.SPEC, f"{j['module']}_{PID}_{tier}_{tag}.gen.cfg")
    if j["sub"] == "demux":
        write_demux_cfg(cfg, j["consts"], emit=True)
    elif j["sub"] == "conc":
        write_conc_cfg(cfg, j["consts"], emit=True)
    else:
        write_bridge_cfg(cfg, j["consts"], emit=True)
    j["out"] = os.path.join(ck.dir, f"{j['sub']}_{tier}_{tag}.ndjson")
    sim = j["consts"].get("sim")
    try:
        j["res"] = vlib.tlc(j["module"], os.path.basename(cfg), tags=(j["tagname"],), sinks={j["tagname"]: j["out"]},
                            timeout=5400 if tier == "thorough" else 2400, heap="8g" if tier == "thorough" else "4g",
                            tag=f"{j['module']}_{PID}_{tier}_{tag}",
                            simulate=sim[0] if sim else None, depth=sim[1] if sim else None)
    except Exception as e:  # reported by the caller (threads must not lose it)
        j["err"] = e
    finally:
        try:
            os.remove(cfg)
        except OSError:
            pass


def consume(ck, tier, j, nontrivial):
    """Replay one generated file on the implementation, fold the result into the check, delete the file."""
    sub, label, res, path = j["sub"], j["label"], j["res"], j["out"]
    tag = label.replace("/", "_") + f".{os.getpid()}"
    sim = j["consts"].get("sim")
    try:
        if res.get("timeout") or res["errors"] or res["rc"] != 0:
            vlib.tlc_ok(res, f"{sub} {label}")   # raises ToolError with TLC's output
        ck.add_tlc(res, f"{sub} {label}")
        mode = "bridge" if sub == "bridge" else "demux"      # conc histories are replayed by the demux mode
        rows = run_sharded(mode, path, os.path.join(ck.dir, f"{sub}_replay_{tier}_{tag}"), NSHARD,
                           timeout=5400 if tier == "thorough" else 2400, hashes=nontrivial)
        summ = absorb(ck, sub, rows)
        emitted = res["counts"]["CASE" if sub == "bridge" else "EDGE"]
        if sub != "bridge":
            n = summ.get("edges", 0)
            complete = summ.get("lines", 0) == emitted
            ck.notes.append(f"{sub} {label}: lines={summ.get('lines')} edges={n} steps={summ.get('steps')} "
                            f"deliveries={summ.get('deliveries')} panics={summ.get('panics')} "
                            f"exact-choice drift={summ.get('drift')}")
        else:
            n = summ.get("cases", 0)
            complete = n == emitted
            ck.notes.append(f"bridge {label}: behaviours={n} packets={summ.get('steps')} "
                            f"panics={summ.get('panics')} ext-drift={summ.get('drift')}")
        if not complete:
            raise vlib.ToolError(f"{sub} {label}: replayed {summ} but TLC emitted {emitted}")
        with open(path) as f:
            for i, line in enumerate(f):
                if i % 20011 == 7 and len(ck.cov["samples"]) < 12:
                    e = json.loads(line)
                    if sub != "bridge" and "probes" not in e:
                        ck.cov["samples"].append({"sub": sub, "gen": label, "pre": e["pre"], "act": e["act"],
                                                  "allowed": e["exp"], "model": e["ext"], "cls": e["cls"]})
                    elif sub == "bridge":
                        ck.cov["samples"].append({"sub": "bridge", "gen": label, "cfg": e["cfg"], "steps": e["steps"]})
        exhaustive = bool(res["finished"]) and complete and not sim
        return n, exhaustive
    finally:
        try:
            os.remove(path)      # edge lists are large; a violation record carries its own case
        except OSError:
            pass


def run(tier):
    ck = vlib.Check(PID, tier)
    vlib.build_harness([BIN])
    nontrivial = set()
    jobs = tlc_jobs(tier)
    sem = threading.Semaphore(7 if tier == "quick" else 5)

    lock = threading.Lock()
    results = {}

    def work(j):
        # generate, then replay and delete the generated file right away (disk): replays are serialised,
        # the single-worker TLC runs overlap
        with sem:
            run_tlc_job(ck, tier, j)
            if "err" in j:
                return
            with lock:
                try:
                    results[j["label"] + j["sub"]] = consume(ck, tier, j, nontrivial)
                except Exception as e:
                    j["err"] = e

    th = [threading.Thread(target=work, args=(j,)) for j in jobs]
    for t in th:
        t.start()
    for t in th:
        t.join()
    for j in jobs:
        if "err" in j:
            for k in jobs:       # leave nothing big behind
                try:
                    os.remove(k.get("out", ""))
                except OSError:
                    pass
            raise j["err"]
    total = 0
    exhaustive = True
    for j in jobs:
        n, ex = results[j["label"] + j["sub"]]
        total += n
        if not j["consts"].get("sim"):
            exhaustive = exhaustive and ex
    ck.cov["traces_validated_against_impl"] = total
    ck.cov["evaluations"] = total
    ck.cov["distinct_nontrivial"] = len(nontrivial)
    ck.cov["exhaustive"] = bool(exhaustive)
    ck.cov["rule"] = (
        "demux: every (registry state, inbound packet) edge of the bounded Demux model (registrations by SSRC / RID / "
        "MID / payload-type list / single payload type / provisional, listener channel closed, clear_listeners; packet = "
        "SSRC x PT x RID? x MID?) is executed on a fresh RtpTransport by replaying a shortest history that reaches the "
        "state; in addition every transition that forgets registry content and every packet a branch took is followed "
        "by all probe packets, and random deep histories (TLC -simulate) are replayed with all their out-edges; the set of "
        "listener channels holding the packet afterwards must be one of the outcomes the statement allows. bridge: every "
        "bounded behaviour of Bridge.tla (rule tables x interleaved sources x timestamp-step alphabet incl. the 900000 / "
        "2^31 boundaries and u32/u16 wrap) is pushed through a real bridge and the datagrams read at the target's peer "
        "socket are compared with the model (SSRC, PT, sequence, timestamp). non-trivial = the packet meets at least one "
        "registration (demux) / some source sends at least two packets (bridge); counted by hashing (cfg, history, action)")
    ck.assumptions += [
        "bounded: listeners/SSRCs/PTs/MIDs/RIDs and history length as listed in tlc_runs; larger registries are not explored",
        "exhaustive refers to the bounded G-edge / G-bounded runs; the simulation passes are random samples (seeded)",
        "RtpTransport.receive is called from one read loop (no two concurrent receive calls); registry calls racing with it "
        "are executed at its two scheduling points (after the selection, before the closed-listener clean-up) - the only "
        "places where the registry lock is released inside receive()",
        "clear RTP mode (no SRTP session, srtp_required = false); the SRTP gate is property C14",
        "listener channels are drained after every step unless the scenario filled one (Fill/Drain actions, bounded configs)",
        "demux: 'nothing delivered' is read from the listener channels right after the awaited receive() returns (no timeout)",
        "bridge: output observed on loopback UDP; a sentinel datagram through the same socket pair delimits each behaviour",
    ]
    ck.finish()


def replay(path):
    """Re-run one recorded violation."""
    ck = vlib.Check(PID, "quick")
    vlib.build_harness([BIN])
    with open(path) as f:
        rec = json.load(f)
    case = rec["record"]["case"]
    sub = rec["signature"].get("sub", "demux")
    ep = os.path.join(ck.dir, f"replay_one.{os.getpid()}.ndjson")
    vlib.write_ndjson(ep, [case])
    rows = run_sharded("bridge" if sub == "bridge" else "demux", ep,
                       os.path.join(ck.dir, f"replay_one_out.{os.getpid()}"), 1, timeout=300)
    os.remove(ep)
    summ = absorb(ck, sub, rows)
    ck.cov.update(states=1, transitions=1, traces_validated_against_impl=summ.get("edges", summ.get("cases", 0)),
                  samples=[case])
    ck.finish()


def selftest():
    """Negative controls that need no mutation of /repo:
    (i) the Demux model with each former deviation of the pinned code switched on violates the C19 rules in TLC;
    (ii) corrupting the expectation of generated cases is reported by the replayer (demux and bridge)."""
    ok = True
    c = dict(DEMUX_CFG["quick"][0][1])
    for dev, props in (('{"ProvisionalOnAmbiguousPt"}', ("ChainRespected", "AmbiguousPtDropped")),
                       ('{"ClearKeepsMid"}', ("OnlyRegistered",))):
        cfg = os.path.join(vlib.SPEC, f"MC_Demux_{PID}_selftest.{os.getpid()}.gen.cfg")
        write_demux_cfg(cfg, c, emit=False, deviations=dev)
        res = vlib.tlc("MC_Demux", os.path.basename(cfg), timeout=600, workers=4, tag="MC_Demux_C19_selftest")
        os.remove(cfg)
        hit = any(any(p in e for p in props) for e in res["errors"])
        print(f"selftest: Demux model with Deviations = {dev} violates {'/'.join(props)}: {hit}")
        ok = ok and hit
    cfg = os.path.join(vlib.SPEC, f"MC_DemuxConc_{PID}_selftest.{os.getpid()}.gen.cfg")
    write_conc_cfg(cfg, dict(CONC_CFG["quick"][0][1], MaxLen=7), emit=False, deviations='{"RemoveSsrcUnconditional"}')
    res = vlib.tlc("MC_DemuxConc", os.path.basename(cfg), timeout=900, workers=6, tag="MC_DemuxConc_C19_selftest")
    os.remove(cfg)
    hit = any("LiveRegistrationKept" in e for e in res["errors"])
    print(f"selftest: DemuxConc model with Deviations = {{RemoveSsrcUnconditional}} violates LiveRegistrationKept: {hit}")
    ok = ok and hit
    vlib.build_harness([BIN])
    d = vlib.outdir(PID)
    # (ii) demux: claim that an SSRC-bound packet must be dropped
    edge = {"cfg": {"rid": True, "mid": True}, "pre": [{"op": "ssrc", "l": 1, "s": 1}],
            "act": {"op": "pkt", "s": 1, "pt": 1, "rid": 0, "mid": 0},
            "exp": {"delivered": {"allowed": [[]], "rule": "ChainRespected"}},
            "ext": {"delivered": [], "bound": [True, False]},
            "cls": {"by": "ssrc", "closedHit": False, "holders": 0, "provs": 0, "identified": True, "unreg": False}}
    ep = os.path.join(d, f"selftest_edge.{os.getpid()}.ndjson")
    vlib.write_ndjson(ep, [edge])
    rows = run_sharded("demux", ep, os.path.join(d, f"selftest_edge_out.{os.getpid()}"), 1, timeout=120)
    hit = any(r.get("type") == "divergence" and r.get("rule") == "ChainRespected" for r in rows)
    print("selftest: corrupted demux expectation is reported:", hit)
    ok = ok and hit
    # (ii) bridge: claim a wrong second sequence number
    case = {"cfg": {"rules": [{"m": -1, "fixOn": True, "fix": 43981, "off": 0, "pt": -1, "mid": 0}], "fixed": True,
                    "seq0": 65535, "off0": 0, "pinOn": False, "pin": 0, "strip": False},
            "steps": [{"src": 100, "pt": 0, "ts": 1000, "exp": {"ssrc": 43981, "pt": 0, "seq": 65535, "ts": 1000,
                                                                 "first": True, "cont": "first", "mid": 0, "tsRule": "EXT"}},
                      {"src": 100, "pt": 0, "ts": 1160, "exp": {"ssrc": 43981, "pt": 0, "seq": 1, "ts": 1160,
                                                                 "first": False, "cont": "cont", "mid": 0,
                                                                 "tsRule": "TsPreserve"}}]}
    vlib.write_ndjson(ep, [case])
    rows = run_sharded("bridge", ep, os.path.join(d, f"selftest_case_out.{os.getpid()}"), 1, timeout=120)
    os.remove(ep)
    hit = any(r.get("type") == "divergence" and r.get("rule") == "SeqConsecutive" for r in rows)
    print("selftest: corrupted bridge expectation is reported:", hit)
    ok = ok and hit
    raise SystemExit(0 if ok else 2)
