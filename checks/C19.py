"""C19 - inbound RTP reaches only the right receiver; bridged streams stay continuous.

Demux.tla / Bridge.tla are checked by TLC (the properties must hold with the open deviations off) and
every TLC-generated case is replayed on a real RtpTransport (clear RTP mode, public API only):
 * demux: every (registry state, packet) edge of the bounded model; the listeners that received the
   packet are compared with the outcomes the statement allows;
 * bridge: every bounded behaviour of the rewrite bridge; the datagrams read back at the target's peer
   socket are compared field by field with the model's output.
"""
import hashlib
import json
import os
import threading
import vlib

PID = "C19"
BIN = "demux"
NSHARD = 6

# deviations of the code that the generator model follows (so that replay states stay aligned): none -
# both deviations found on the pinned tree (KF-C19-1, KF-C19-2) are fixed in /repo
GEN_DEVIATIONS = '{}'

DEMUX_CFG = {
    "quick": [
        ("L3/len4", dict(Ls="{1, 2, 3}", Ssrcs="{1, 2}", Pts="{1, 2}", Mids="{1, 2}", Rids="{1}", Ext="ExtBoth", MaxLen=4)),
        ("L2/len6", dict(Ls="{1, 2}", Ssrcs="{1, 2}", Pts="{1, 2}", Mids="{1, 2}", Rids="{1}", Ext="ExtBoth", MaxLen=6, Probe=4)),
        ("L2/ext/len4", dict(Ls="{1, 2}", Ssrcs="{1}", Pts="{1, 2}", Mids="{1, 2}", Rids="{1}", Ext="ExtAll", MaxLen=4)),
    ],
    "thorough": [
        ("L3/len5", dict(Ls="{1, 2, 3}", Ssrcs="{1, 2}", Pts="{1, 2}", Mids="{1, 2}", Rids="{1}", Ext="ExtBoth", MaxLen=5)),
        ("L2/full", dict(Ls="{1, 2}", Ssrcs="{1, 2}", Pts="{1, 2}", Mids="{1, 2}", Rids="{1}", Ext="ExtBoth", MaxLen=40, Probe=5)),
        ("L3/ext/len4", dict(Ls="{1, 2, 3}", Ssrcs="{1, 2}", Pts="{1, 2}", Mids="{1, 2}", Rids="{1, 2}", Ext="ExtAll", MaxLen=4)),
    ],
}

DEMUX_PROPS = ("AtMostOne ChainRespected AmbiguousPtDropped NeverToClosed ClosedRemoved NoCrossSection "
               "OnlyRegistered BindingRule BindingLearnt")


def write_demux_cfg(path, c, emit, deviations=GEN_DEVIATIONS, props=DEMUX_PROPS):
    with open(path, "w") as f:
        f.write(f"""SPECIFICATION Spec
CONSTANTS
  Ls = {c['Ls']}
  Ssrcs = {c['Ssrcs']}
  Pts = {c['Pts']}
  Mids = {c['Mids']}
  Rids = {c['Rids']}
  ExtCfgs <- {c['Ext']}
  MaxLen = {c['MaxLen']}
  ProbeMaxLen = {c.get('Probe', c['MaxLen'] - 1)}
  Deviations = {deviations}
VIEW view
INVARIANTS TypeOK
PROPERTIES {props}
ACTION_CONSTRAINT {'EmitPkt' if emit else 'NoEmit'}
CHECK_DEADLOCK FALSE
""")


def sig_of(sub, d):
    cls = d.get("cls") or {}
    s = {"sub": sub, "rule": d.get("rule"), "field": d.get("field")}
    if sub == "demux":
        s.update(by=cls.get("by"), closedHit=cls.get("closedHit"), ambiguousPt=(cls.get("holders", 0) >= 2),
                 identified=cls.get("identified"))
    else:
        s.update(first=d.get("first"), cont=d.get("cont"))
    return s


def run_sharded(mode, inp, out_prefix, nshard, timeout):
    """Run the harness binary on `inp` in nshard worker processes; return all output rows."""
    outs = [f"{out_prefix}.{i}.ndjson" for i in range(nshard)]
    errs = [None] * nshard

    def work(i):
        try:
            p = vlib.run_bin(BIN, [mode, inp, outs[i], f"{i}/{nshard}"], timeout=timeout)
            if p.returncode != 0:
                errs[i] = f"rc={p.returncode}: {p.stderr[-1500:]}"
        except vlib.ToolError as e:
            errs[i] = str(e)

    th = [threading.Thread(target=work, args=(i,)) for i in range(nshard)]
    for t in th:
        t.start()
    for t in th:
        t.join()
    bad = [e for e in errs if e]
    if bad:
        raise vlib.ToolError(f"{BIN} {mode} replayer failed: {bad[0]}")
    rows = []
    for o in outs:
        rows += vlib.read_ndjson(o)
        os.remove(o)
    return rows


def absorb(ck, sub, rows):
    """Turn replayer rows into divergences / drift; return the merged summary."""
    summ = {}
    for r in rows:
        t = r.get("type")
        if t == "summary":
            for k, v in r.items():
                if isinstance(v, (int, float)) and not isinstance(v, bool):
                    summ[k] = summ.get(k, 0) + v
        elif t == "divergence":
            if r.get("rule") == "EXT":
                ck.drift.append({"sub": sub, "field": r.get("field"), "allowed": r.get("allowed"),
                                 "observed": r.get("observed"), "step": r.get("step")})
            else:
                ck.divergence(sig_of(sub, r), r)
        elif t == "drift":
            ck.drift.append({"sub": sub, "kind": r.get("kind", "exact-choice"), "expected": r.get("expected"),
                             "observed": r.get("observed"), "pre": r["case"].get("pre"), "act": r["case"].get("act")})
    return summ


def tlc_jobs(tier):
    """All TLC runs of a tier (design check + generator in one run each); executed concurrently because an
    emission run is single-worker by convention."""
    jobs = []
    for label, consts in DEMUX_CFG[tier]:
        jobs.append(dict(sub="demux", label=label, consts=consts, module="MC_Demux", tagname="EDGE"))
    for label, consts in BRIDGE_CFG[tier]:
        jobs.append(dict(sub="bridge", label=label, consts=consts, module="MC_Bridge", tagname="CASE"))
    return jobs


def run_tlc_job(ck, tier, j):
    tag = j["label"].replace("/", "_")
    cfg = os.path.join(vlib.SPEC, f"{j['module']}_{tier}_{tag}.gen.cfg")
    if j["sub"] == "demux":
        write_demux_cfg(cfg, j["consts"], emit=True)
    else:
        write_bridge_cfg(cfg, j["consts"], emit=True)
    j["out"] = os.path.join(ck.dir, f"{j['sub']}_{tier}_{tag}.ndjson")
    try:
        j["res"] = vlib.tlc(j["module"], os.path.basename(cfg), tags=(j["tagname"],), sinks={j["tagname"]: j["out"]},
                            timeout=3000 if tier == "thorough" else 900, heap="8g" if tier == "thorough" else "4g",
                            tag=f"{j['module']}_{tier}_{tag}")
    except Exception as e:  # reported by the caller (threads must not lose it)
        j["err"] = e
    finally:
        try:
            os.remove(cfg)
        except OSError:
            pass


def demux_part(ck, tier, nontrivial, jobs):
    total = 0
    exhaustive = True
    for j in jobs:
        if j["sub"] != "demux":
            continue
        label, res, edges = j["label"], j["res"], j["out"]
        tag = label.replace("/", "_")
        vlib.tlc_ok(res, f"demux {label}")
        ck.add_tlc(res, f"demux {label}")
        rows = run_sharded("demux", edges, os.path.join(ck.dir, f"demux_replay_{tier}_{tag}"), NSHARD,
                           timeout=3000 if tier == "thorough" else 900)
        summ = absorb(ck, "demux", rows)
        total += summ.get("edges", 0)
        exhaustive = exhaustive and res["finished"] and summ.get("edges", 0) == res["counts"]["EDGE"]
        ck.notes.append(f"demux {label}: edges={summ.get('edges')} steps={summ.get('steps')} "
                        f"deliveries={summ.get('deliveries')} panics={summ.get('panics')} "
                        f"exact-choice drift={summ.get('drift')} unregistered-deliveries={summ.get('unreg')}")
        with open(edges) as f:
            for i, line in enumerate(f):
                # non-trivial = the packet meets at least one registration (some branch of the chain fires,
                # a closed listener is hit, or the payload type is claimed)
                if '"by":"none"' not in line or '"holders":0' not in line:
                    nontrivial.add(hashlib.blake2b(line.encode(), digest_size=8).digest())
                if i % 20011 == 7 and len(ck.cov["samples"]) < 6:
                    e = json.loads(line)
                    ck.cov["samples"].append({"sub": "demux", "pre": e["pre"], "act": e["act"], "allowed": e["exp"],
                                              "model": e["ext"], "cls": e["cls"]})
        if tier == "thorough":
            os.remove(edges)
    return total, exhaustive


def run(tier):
    ck = vlib.Check(PID, tier)
    vlib.build_harness([BIN])
    nontrivial = set()
    jobs = tlc_jobs(tier)
    sem = threading.Semaphore(6 if tier == "quick" else 4)

    def work(j):
        with sem:
            run_tlc_job(ck, tier, j)

    th = [threading.Thread(target=work, args=(j,)) for j in jobs]
    for t in th:
        t.start()
    for t in th:
        t.join()
    for j in jobs:
        if "err" in j:
            raise j["err"]
    n_demux, ex_demux = demux_part(ck, tier, nontrivial, jobs)
    n_bridge, ex_bridge = bridge_part(ck, tier, nontrivial, jobs)
    ck.cov["traces_validated_against_impl"] = n_demux + n_bridge
    ck.cov["evaluations"] = n_demux + n_bridge
    ck.cov["distinct_nontrivial"] = len(nontrivial)
    ck.cov["exhaustive"] = bool(ex_demux and ex_bridge)
    ck.cov["rule"] = (
        "demux: every (registry state, inbound packet) edge of the bounded Demux model (registrations by SSRC / RID / "
        "MID / payload-type list / single payload type / provisional, listener channel closed, clear_listeners; packet = "
        "SSRC x PT x RID? x MID?) is executed on a fresh RtpTransport by replaying a shortest history that reaches the "
        "state; the set of listener channels holding the packet afterwards must be one of the outcomes the statement "
        "allows. bridge: every bounded behaviour of Bridge.tla (rule tables x interleaved sources x timestamp-delta "
        "alphabet incl. the 900000 / 2^31 boundaries and u32/u16 wrap) is pushed through a real bridge and the datagrams "
        "read at the target's peer socket are compared with the model (SSRC, PT, sequence, timestamp). non-trivial = the "
        "packet meets at least one registration (demux) / the behaviour has at least two packets of one source (bridge)")
    ck.assumptions += [
        "bounded: listeners/SSRCs/PTs/MIDs/RIDs and history length as listed in tlc_runs; larger registries are not explored",
        "RtpTransport.receive is called sequentially (one socket read loop per connection); no concurrent registration",
        "clear RTP mode (no SRTP session, srtp_required = false); the SRTP gate is property C14",
        "listener channels are drained after every step: the 'channel full' drop is not exercised in the edge cover",
        "demux: 'nothing delivered' is read from the listener channels right after the awaited receive() returns (no timeout)",
        "bridge: output observed on loopback UDP; a sentinel datagram through the same socket pair delimits each behaviour",
    ]
    ck.finish()


BRIDGE_CFG = {
    "quick": [
        ("one-source/len4", dict(Sources="SrcOne", PtAlpha="{0, 101}", Tables="TablesQuick", StartTs="StartWrap",
                                 Deltas="DeltasMid", Modes="ModesFixed", MaxLen=4)),
        ("two-sources/len4", dict(Sources="SrcTwo", PtAlpha="{0, 101}", Tables="TablesTwo", StartTs="StartOne",
                                  Deltas="DeltasSmall", Modes="ModesFixed", MaxLen=4)),
        ("modes/len3", dict(Sources="SrcOne", PtAlpha="{0, 96, 101}", Tables="TablesAll", StartTs="StartEdge",
                            Deltas="DeltasSmall", Modes="ModesAll", MaxLen=3)),
    ],
    "thorough": [
        ("one-source/len5", dict(Sources="SrcOne", PtAlpha="{0, 101}", Tables="TablesQuick", StartTs="StartWrap",
                                 Deltas="DeltasFull", Modes="ModesFixed", MaxLen=5)),
        ("two-sources/len5", dict(Sources="SrcTwo", PtAlpha="{0, 101}", Tables="TablesTwo", StartTs="StartOne",
                                  Deltas="DeltasSmall", Modes="ModesFixed", MaxLen=5)),
        ("modes/len4", dict(Sources="SrcTwo", PtAlpha="{0, 96, 101}", Tables="TablesAll", StartTs="StartEdge",
                            Deltas="DeltasSmall", Modes="ModesAll", MaxLen=4)),
    ],
}

BRIDGE_PROPS = "RuleApplied SeqConsecutive TsPreserve Independent"


def write_bridge_cfg(path, c, emit):
    with open(path, "w") as f:
        f.write(f"""SPECIFICATION Spec
CONSTANTS
  Sources <- {c['Sources']}
  PtAlpha = {c['PtAlpha']}
  Tables <- {c['Tables']}
  StartTs <- {c['StartTs']}
  Deltas <- {c['Deltas']}
  Modes <- {c['Modes']}
  Seq0 = 65534
  Off0 <- OffNeg
  Pin = 2147483600
  MaxLen = {c['MaxLen']}
INVARIANTS TypeOK StableMap
PROPERTIES {BRIDGE_PROPS}
ACTION_CONSTRAINT {'EmitCase' if emit else 'NoEmit'}
CHECK_DEADLOCK FALSE
""")


def bridge_part(ck, tier, nontrivial, jobs):
    total = 0
    exhaustive = True
    for j in jobs:
        if j["sub"] != "bridge":
            continue
        label, res, cases = j["label"], j["res"], j["out"]
        tag = label.replace("/", "_")
        vlib.tlc_ok(res, f"bridge {label}")
        ck.add_tlc(res, f"bridge {label}")
        rows = run_sharded("bridge", cases, os.path.join(ck.dir, f"bridge_replay_{tier}_{tag}"), NSHARD,
                           timeout=3000 if tier == "thorough" else 900)
        summ = absorb(ck, "bridge", rows)
        total += summ.get("cases", 0)
        exhaustive = exhaustive and res["finished"] and summ.get("cases", 0) == res["counts"]["CASE"]
        ck.notes.append(f"bridge {label}: behaviours={summ.get('cases')} packets={summ.get('steps')} "
                        f"panics={summ.get('panics')} ext-drift={summ.get('drift')}")
        with open(cases) as f:
            for i, line in enumerate(f):
                # non-trivial = some source sends at least two packets (every continuity rule needs a pair)
                if '"first":false' in line:
                    nontrivial.add(hashlib.blake2b(line.encode(), digest_size=8).digest())
                if i % 9973 == 5 and len(ck.cov["samples"]) < 10:
                    e = json.loads(line)
                    ck.cov["samples"].append({"sub": "bridge", "cfg": e["cfg"], "steps": e["steps"]})
        if tier == "thorough":
            os.remove(cases)
    return total, exhaustive


def replay(path):
    """Re-run one recorded violation."""
    ck = vlib.Check(PID, "quick")
    vlib.build_harness([BIN])
    with open(path) as f:
        rec = json.load(f)
    case = rec["record"]["case"]
    sub = rec["signature"].get("sub", "demux")
    ep = os.path.join(ck.dir, "replay_one.ndjson")
    vlib.write_ndjson(ep, [case])
    rows = run_sharded(sub, ep, os.path.join(ck.dir, "replay_one_out"), 1, timeout=300)
    summ = absorb(ck, sub, rows)
    ck.cov.update(states=1, transitions=1, traces_validated_against_impl=summ.get("edges", summ.get("cases", 0)),
                  samples=[case])
    ck.finish()


def selftest():
    """Negative controls that need no mutation of /repo:
    (i) the model with the pinned code's former deviation switched on violates the C19 rules in TLC;
    (ii) corrupting the expectation of generated edges is reported by the replayer."""
    ok = True
    c = DEMUX_CFG["quick"][0][1]
    cfg = os.path.join(vlib.SPEC, "MC_Demux_selftest.gen.cfg")
    write_demux_cfg(cfg, c, emit=False, deviations='{"ClearKeepsMid", "ProvisionalOnAmbiguousPt"}')
    res = vlib.tlc("MC_Demux", os.path.basename(cfg), timeout=600, workers=4)
    os.remove(cfg)
    ok1 = any("ChainRespected" in e or "AmbiguousPtDropped" in e for e in res["errors"])
    print("selftest: deviation-on Demux model violates ChainRespected/AmbiguousPtDropped:", ok1)
    ok = ok and ok1
    raise SystemExit(0 if ok else 2)
