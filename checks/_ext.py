"""Shared driver code for the EXT engines (EXT01..): specification growth beyond the listed properties.

Every EXT check has the same shape:
  1. TLC, Deviations = {}      : the documented contract holds on the intended design (multi-worker, no emission)
  2. TLC, Deviations = each    : the pinned code's departure violates the contract on the model (recorded, with the
                                 length of the counterexample) - this is information, not an alarm
  3. TLC, Deviations = Pinned  : G-edge (BFS transition cover, VIEW without histories) and G-sim (simulation, real
                                 unmerged histories) emission of {cfg, pre, act, exp} edges
  4. replay of every edge on the real object, in shard processes; rows come back as
       replay   : the real object differs from the pinned model (binding drift)
       contract : what the real object did violates the documented contract, judged on the real output alone
       panic    : a panic in the code under test (reported to the lead, still DRIFT here)
Everything goes to ck.drift: an EXT check never prints VIOLATION.
"""
import concurrent.futures as cf
import json
import os
import subprocess

import vlib


def write(path, text):
    with open(path, "w") as f:
        f.write(text)


def tlc_plain(module, cfg_text, name, timeout=900, workers=6, heap="4g"):
    cfg = os.path.join(vlib.SPEC, f"{name}.gen.cfg")
    write(cfg, cfg_text)
    try:
        return vlib.tlc(module, os.path.basename(cfg), timeout=timeout, workers=workers, heap=heap, tag=name)
    finally:
        _rm(cfg)


def tlc_edges(module, cfg_text, name, sink, timeout=900, simulate=None, depth=None, heap="4g"):
    cfg = os.path.join(vlib.SPEC, f"{name}.gen.cfg")
    write(cfg, cfg_text)
    try:
        res = vlib.tlc(module, os.path.basename(cfg), tags=("EDGE",), sinks={"EDGE": sink}, timeout=timeout,
                       simulate=simulate, depth=depth, heap=heap, tag=name)
    finally:
        _rm(cfg)
    if res.get("timeout"):
        raise vlib.ToolError(f"TLC timed out: {name}")
    # in simulation mode TLC's exit status / 'finished' differ; only real errors matter
    if res["errors"]:
        vlib.log("\n".join(res["raw_tail"]))
        raise vlib.ToolError(f"TLC error in {name}: {res['errors'][:3]}")
    return res


def _rm(p):
    try:
        os.remove(p)
    except OSError:
        pass


def violated(res):
    """Names of invariants / properties TLC reported as violated."""
    out = []
    for e in res["errors"]:
        for key in ("Invariant ", "Action property ", "Temporal properties were violated"):
            if key in e and "violated" in e:
                out.append(e.replace("Error: ", "").strip())
    return out


def dedup_edges(paths, out_path):
    """Concatenate edge files dropping exact duplicates (simulation prints an edge once per visit)."""
    seen = set()
    n = 0
    with open(out_path, "w") as o:
        for p in paths:
            with open(p) as f:
                for line in f:
                    h = hash(line)
                    if h in seen:
                        continue
                    seen.add(h)
                    o.write(line)
                    n += 1
    return n


def replay_sharded(binname, edges_path, outdir, label, shards=12, timeout=1500, extra_args=()):
    """Run the replayer in `shards` processes over one edge file; returns (rows, merged summary)."""
    def one(i):
        out = os.path.join(outdir, f"replay_{label}_{i}.ndjson")
        p = vlib.run_bin(binname, [edges_path, out, f"{i}/{shards}", *extra_args], timeout=timeout)
        if p.returncode != 0:
            raise vlib.ToolError(f"{binname} shard {i} failed rc={p.returncode}: {p.stderr[-1500:]}")
        rows = vlib.read_ndjson(out)
        _rm(out)
        return rows
    rows = []
    with cf.ThreadPoolExecutor(max_workers=shards) as ex:
        for r in ex.map(one, range(shards)):
            rows += r
    summ = {}
    for r in rows:
        if r.get("type") != "summary":
            continue
        for k, v in r.items():
            if isinstance(v, (int, float)) and not isinstance(v, bool):
                summ[k] = summ.get(k, 0) + v
            elif isinstance(v, dict):
                d = summ.setdefault(k, {})
                for kk, vv in v.items():
                    d[kk] = d.get(kk, 0) + vv
    return [r for r in rows if r.get("type") != "summary"], summ


def rows_to_drift(ck, rows, keep_case=True):
    """All findings of an EXT engine are DRIFT. One drift entry per (type, field) with its first witness."""
    first = {}
    for r in rows:
        k = (r.get("type"), r.get("field"))
        if k not in first:
            first[k] = r
    for (typ, field), r in sorted(first.items(), key=lambda kv: str(kv[0])):
        d = {"class": typ, "field": field, "expected": r.get("expected"), "observed": r.get("observed")}
        if keep_case:
            d["witness"] = r.get("case")
        ck.drift.append(d)
    # vlib prints only the first five DRIFT lines: one line with every signature
    print("EXT-DRIFT-SIGNATURES: " + json.dumps(sorted(f"{t}:{f}" for (t, f) in first)))
    # evidence keeps only the number of drift entries: keep the entries themselves (trimmed) next to the coverage
    ck.cov["drift_details"] = [json.loads(json.dumps(d, default=str)[:4000]) if len(json.dumps(d, default=str)) <= 4000
                               else {k: d[k] for k in ("class", "field", "expected", "observed")} for d in ck.drift]
    return first
