"""Shared driver code of the DTLS handshake checks (C11, C02): TLC schedule generation on
MC_DtlsHandshake, sharded execution by harness/src/bin/dtlshs.rs, normalisation of the recorded
events and validation against Trace_DtlsHandshake."""
import hashlib
import json
import os
import subprocess
import time

import vlib

HS_NAME = {0: "HR", 1: "CH", 2: "SH", 3: "HVR", 11: "CERT", 12: "SKE", 13: "CR", 14: "SHD", 15: "CV", 16: "CKE", 20: "FIN"}

# Deviations of the pinned tree that are open findings (the model the real code is validated against).
OPEN_DEVIATIONS = ["ServerSkipsClientAuth"]

ALL_RULES = ["MustResend", "Sequencing", "Reassembly", "FlightContent", "RetransmitLastFlight", "Decrypt",
             "KeyDerivation", "ConnectedOnlyWhenSpecConnects", "KeyAgreement", "Auth", "AuthServer", "FailOnlyWhenSpecFails",
             "StateProjection", "EXT"]


def tla_set(xs):
    return "{" + ", ".join(json.dumps(x) for x in xs) + "}"


def write_mc_cfg(path, *, spec="Spec", deviations=(), net_kinds=(), net_budget=0, adv_kinds=(), adv_budget=0,
                 max_ord=2, fpcs=("match",), fpss=("none",), idcs=("certC",), idss=("certS",), kindss=("ec",), deadline=False,
                 app=True, invariants=(), properties=(), emit="NoEmit", extra_inv=(), server_hvr=False, anti_replay=(),
                 tick_slack=None, buffers=()):
    with open(path, "w") as f:
        f.write(f"""SPECIFICATION {spec}
CONSTANTS
  Buffers = {tla_set(buffers)}
  AntiReplay = {tla_set(anti_replay)}
  ServerHvr = {"TRUE" if server_hvr else "FALSE"}
  Deviations = {tla_set(deviations)}
  Lax = FALSE
  NetKinds = {tla_set(net_kinds)}
  NetBudget = {net_budget}
  AdvKinds = {tla_set(adv_kinds)}
  AdvBudget = {adv_budget}
  MaxOrd = {max_ord}
  FpCs = {tla_set(fpcs)}
  FpSs = {tla_set(fpss)}
  IdCs = {tla_set(idcs)}
  IdSs = {tla_set(idss)}
  KindSs = {tla_set(kindss)}
  TickQuiet = {"TRUE" if tick_slack is None else "FALSE"}
  TickSlack = {0 if tick_slack is None else tick_slack}
  UseDeadline = {"TRUE" if deadline else "FALSE"}
  SendAppData = {"TRUE" if app else "FALSE"}
""")
        invs = list(invariants) + list(extra_inv)
        if invs:
            f.write("INVARIANTS " + " ".join(invs) + "\n")
        if properties:
            f.write("PROPERTIES " + " ".join(properties) + "\n")
        f.write(f"ACTION_CONSTRAINT {emit}\nCHECK_DEADLOCK FALSE\n")


def op_to_harness(o):
    """TLC op record -> harness op (see dtlsproxy.rs)."""
    kind = o["kind"]
    arg = None
    if kind == "hold":
        arg = {"k": o["k"]}
    elif kind == "split":
        arg = {"n": 2, "ranges": [[0, 4], [2, 6]]} if o["k"] == 20 else {"n": o["k"]}
    elif kind in ("merge", "coalesce"):
        arg = {"n": o["k"]}
    elif kind.startswith("rw_") or kind.startswith("inj_"):
        arg = {"what": kind}
        kind = "rw"
    r = {"dir": o["dir"], "msg": o["msg"], "ord": o["ord"], "kind": kind}
    if arg is not None:
        r["arg"] = arg
    return r


def sched_id(cfg, ops):
    # kS (key type of the genuine server's certificate) is part of the identity only where it is not the default
    if cfg.get("kS", "ec") == "ec":
        cfg = {k: v for k, v in cfg.items() if k != "kS"}
    k = json.dumps({"cfg": cfg, "ops": ops}, sort_keys=True)
    return hashlib.sha1(k.encode()).hexdigest()[:12]


def scenarios_from_sched(rows, tick_ms=40, deadline_ms=3000, always_empty=True):
    """Distinct content-addressed schedules emitted by TLC -> scenario records for the harness."""
    seen = {}
    cfgs = {}
    for r in rows:
        cfg = r["cfg"]
        cfgs[json.dumps(cfg, sort_keys=True)] = cfg
        sid = sched_id(cfg, r["ops"])
        if sid not in seen:
            seen[sid] = {"id": sid, "cfg": cfg, "tlc_ops": r["ops"], "ops": [op_to_harness(o) for o in r["ops"]],
                         "fpC": cfg["fpC"], "fpS": cfg["fpS"], "idC": cfg["idC"], "idS": cfg["idS"], "kS": cfg.get("kS", "ec"),
                         "tick_ms": tick_ms, "deadline_ms": deadline_ms}
    if always_empty:
        for cfg in cfgs.values():
            sid = sched_id(cfg, [])
            seen.setdefault(sid, {"id": sid, "cfg": cfg, "tlc_ops": [], "ops": [], "fpC": cfg["fpC"], "fpS": cfg["fpS"],
                                  "idC": cfg["idC"], "idS": cfg["idS"], "kS": cfg.get("kS", "ec"), "tick_ms": tick_ms, "deadline_ms": deadline_ms})
    return [seen[k] for k in sorted(seen)]


def run_scenarios(ck, scenarios, tag, nproc=8, timeout=1500, sub="run"):
    """Run the scenarios in `nproc` harness processes; returns outcome records in scenario order."""
    inp = os.path.join(ck.dir, f"scen_{tag}.ndjson")
    vlib.write_ndjson(inp, scenarios)
    nproc = max(1, min(nproc, len(scenarios)))
    procs = []
    env = dict(os.environ)
    env["VERIF_SEED"] = str(vlib.seed())
    for i in range(nproc):
        out = os.path.join(ck.dir, f"out_{tag}_{i}.ndjson")
        p = subprocess.Popen([vlib.bin_path("dtlshs"), sub, inp, out, f"{i}/{nproc}"], cwd=vlib.ROOT, env=env,
                             stdout=subprocess.DEVNULL, stderr=subprocess.PIPE, text=True)
        procs.append((p, out))
    t0 = time.time()
    res = {}
    for p, out in procs:
        try:
            _, err = p.communicate(timeout=max(1, timeout - (time.time() - t0)))
        except subprocess.TimeoutExpired:
            for q, _ in procs:
                q.kill()
            raise vlib.ToolError(f"dtlshs timed out after {timeout}s")
        if p.returncode != 0:
            raise vlib.ToolError(f"dtlshs failed rc={p.returncode}: {err[-1500:]}")
        for r in vlib.read_ndjson(out):
            if r.get("type") == "outcome":
                res[r["id"]] = r
        os.remove(out)
    missing = [s["id"] for s in scenarios if s["id"] not in res]
    if missing:
        raise vlib.ToolError(f"dtlshs produced no outcome for {len(missing)} scenarios, e.g. {missing[:3]}")
    return [res[s["id"]] for s in scenarios]


# ------------------------------------------------------------------------------------------- normalisation

def _unit(pos, total):
    """Byte position -> position in sixths of the body (the cut points of the proxy's 2- and 3-way splits)."""
    table = {0: 0, total // 3: 2, total // 2: 3, 2 * total // 3: 4, total: 6}
    if pos in table:
        return table[pos]
    return max(0, min(6, round(6 * pos / max(1, total))))


MAX_EVENTS = 260   # per scenario: a prefix of an acceptable trace is acceptable; what matters happens early


def normalise(outcome):
    """Hook + proxy events of one scenario -> events of Trace_DtlsHandshake (see its header), capped."""
    return _normalise(outcome)[:MAX_EVENTS]


def _normalise(outcome):
    sc = outcome["scenario"]
    evs = outcome.get("events", [])
    out = [{"ev": "reset", "id": outcome["id"],
            "model": {"refS": "S", "refC": "C"}.get(sc.get("peer"), ""),     # endpoint without hooks (the reference)
            "cfg": {"fpC": sc.get("fpC", "match"), "fpS": sc.get("fpS", "none"),
                    "idC": sc.get("idC", "certC"), "idS": sc.get("idS", "certS"), "kS": sc.get("kS", "ec")}}]
    # what the proxy saw and did: original plaintext handshake messages and rewrites, per direction
    orig = {}      # (dir, bh) -> (type, ms)
    rewritten = {}  # (dir, bh_out) -> (kind, type, ms_orig)
    splits = {}    # (dir, type, ms) -> n
    for e in evs:
        if e.get("comp") != "net":
            continue
        if e["ev"] == "rx":
            for r in e.get("recs", []):
                for h in r.get("hs", []):
                    if h["off"] == 0 and h["fl"] == h["tot"]:
                        orig[(e["dir"], h["bh"])] = (h["t"], h["ms"])
            cur_rx = e
        elif e["ev"] == "split":
            for r in cur_rx.get("recs", []):
                for h in r.get("hs", []):
                    splits[(e["dir"], h["t"], h["ms"])] = e["n"]
        elif e["ev"] == "rw":
            what = (e.get("arg") or {}).get("what", "")
            outs = e.get("outs", [])
            oms = (e.get("orig_ms") or [None])[0]
            if what.startswith("inj_"):
                outs = outs[:1]            # the record the adversary built; the original follows untouched
            for o in outs:
                for r in o:
                    for h in r.get("hs", []):
                        rewritten[(e["dir"], h["bh"])] = (what, h["t"], h["ms"] if oms is None or what.startswith("inj_") else oms, "")
    # everything after the harness's `end` marker is teardown (close_notify etc.)
    end_seq = min([e["seq"] for e in evs if e.get("comp") == "net" and e["ev"] == "end"] or [1 << 62])
    dtls = [e for e in evs if e.get("comp") == "dtls" and e["seq"] < end_seq]
    takeover_seq = min([e["seq"] for e in evs if e.get("comp") == "net" and e["ev"] == "takeover"] or [1 << 62])
    peer = sc.get("peer")
    if peer in ("refS", "refC"):
        # the reference endpoint has no hooks: what the proxy delivered to it stands for its receive events
        ref_inst, to_ref = ("S", "C>S") if peer == "refS" else ("C", "S>C")
        n_deliv = {}
        for e in evs:
            if e.get("comp") != "net" or e["seq"] >= end_seq or e.get("dir") != to_ref or e["ev"] not in ("tx", "release"):
                continue
            for r in e.get("recs", []):
                if r["ct"] == 22 and r["ep"] == 0:
                    msgs = [(h["t"], h["ms"], h["off"], h["fl"], h["tot"]) for h in r.get("hs", [])]
                elif r["ct"] == 22:
                    msgs = [("FIN", -1, 0, 1, 1)]
                else:
                    msgs = []
                for (t, ms, off, fl, tot) in msgs:
                    for _ in range(2 if e.get("dup") else 1):
                        key = (t, ms, off, fl)
                        n_deliv[key] = n_deliv.get(key, 0) + 1
                        dtls.append({"comp": "dtls", "inst": ref_inst, "ev": "hs_model", "seq": e["seq"], "t": t, "ms": ms,
                                     "off": off, "flen": fl, "total": tot, "again": n_deliv[key] > 1})
        dtls.sort(key=lambda x: x["seq"])
    last_snap = {}
    i = 0
    while i < len(dtls):
        e = dtls[i]
        inst = e["inst"]
        ev = e["ev"]
        d_in = "S>C" if inst == "C" else "C>S"
        if ev == "hs_model":
            lo, hi = (0, 6) if e["flen"] == e["total"] else (_unit(e["off"], e["total"]), _unit(e["off"] + e["flen"], e["total"]))
            out.append({"ev": "hs", "inst": inst, "t": e["t"], "ms": max(e["ms"], 0), "oms": e["ms"], "disp": "model",
                        "lo": lo, "hi": hi, "bad": False, "rw": "", "inj": "",
                        # rustrtc's retransmissions renumber plaintext records, the protected Finished keeps its number
                        "same": bool(e["again"] and e["t"] == "FIN"), "seq": e["seq"]})
        elif ev == "hs":
            disp = e["disp"]
            if disp == "resync":
                i += 1
                continue
            t = HS_NAME.get(e["type"], "HS?")
            lo, hi, bad, rw, inj = 0, 6, False, "", ""
            ms = e["mseq"]
            oms = ms
            acc = e
            if disp == "frag":
                # the fragment that completes a message is logged as frag + acc: merge
                j = i + 1
                while j < len(dtls) and dtls[j]["inst"] != inst:
                    j += 1
                if j < len(dtls) and dtls[j]["ev"] == "hs" and dtls[j]["disp"] == "acc" and dtls[j]["mseq"] == ms \
                        and dtls[j]["type"] == e["type"] and all(x["inst"] != inst for x in dtls[i + 1:j]):
                    acc = dtls[j]
                    disp = "acc"
                    dtls.pop(j)
            if e["flen"] != e["total"]:
                lo, hi = _unit(e["off"], e["total"]), _unit(e["off"] + e["flen"], e["total"])
                # the message_seq the sender gave it (differs only after an adversary's omit)
                cands = [k for k in splits if k[0] == d_in and k[1] == t]
                if len(cands) == 1:
                    oms = cands[0][2]
            if disp == "acc":
                key = (d_in, acc["bh"])
                if key in orig:
                    oms = orig[key][1]
                elif key in rewritten:
                    rw, _, oms, inj = rewritten[key]
                elif t == "FIN":
                    # encrypted on the wire: content is the sender's - or, after the adversary took the server's
                    # place, the adversary's own
                    if inst == "C" and e["seq"] > takeover_seq:
                        inj = "m_fin"
                else:
                    bad = True  # bytes that nobody sent: a reassembly that spliced fragments
            else:
                key = (d_in, e["bh"])
                if e["flen"] == e["total"]:
                    if key in orig:
                        oms = orig[key][1]
                    elif key in rewritten:
                        rw, _, oms, inj = rewritten[key]
            if rw.startswith("inj_"):
                inj, rw = rw, ""
                # bytes of the adversary's own making: garbage in the model, except the second ServerHello / Certificate /
                # ServerKeyExchange, which are well-formed messages with M's content
                bad = disp == "acc" and inj not in ("inj_sh2", "inj_cert2", "inj_ske2")
            out.append({"ev": "hs", "inst": inst, "t": t, "ms": ms, "oms": oms, "disp": disp, "lo": lo, "hi": hi,
                        "bad": bad, "rw": rw, "inj": inj, "same": False, "seq": e["seq"]})
        elif ev == "flight":
            out.append({"ev": "flight", "inst": inst, "msgs": list(e["msgs"]),
                        "why": "timer" if e["why"] == "timer" else "answer", "seq": e["seq"]})
        elif ev == "rec":
            if not e["ok"] and e["ctype"] == 22 and e["epoch"] > 0:
                out.append({"ev": "undec", "inst": inst, "seq": e["seq"]})
        elif ev == "keys":
            out.append({"ev": "keys", "inst": inst, "kh": str(e["kh"]), "seq": e["seq"]})
        elif ev == "connected":
            out.append({"ev": "connected", "inst": inst, "kh": str(e["kh"]), "profile": e["profile"], "seq": e["seq"]})
        elif ev == "failed":
            out.append({"ev": "failed", "inst": inst, "deadline": "timed out" in e.get("reason", ""),
                        "reason": e.get("reason", "")[:80], "seq": e["seq"]})
        elif ev in ("cert", "ske"):
            out.append({"ev": ev, "inst": inst, "seq": e["seq"]})
        elif ev == "snap":
            n = {"ev": "snap", "inst": inst, "state": e["state"], "msg_seq": e["msg_seq"], "recv_seq": e["recv_seq"],
                 "have_keys": e["have_keys"], "ske_verified": e["ske_verified"], "peer_cert_set": e["peer_cert_set"]}
            prev = out[-1] if out else None
            # idle repeats (tick after tick with nothing in between) carry no information
            if not (last_snap.get(inst) == n and prev is not None and prev.get("ev") in ("snap", "flight")
                    and all(x.get("inst") != inst or x.get("ev") in ("snap", "flight") for x in out[-3:])
                    and e.get("at") == "tick" and False):
                n["seq"] = e["seq"]
                out.append(n)
            last_snap[inst] = {k: v for k, v in n.items() if k != "seq"}
        i += 1
    return out


# ------------------------------------------------------------------------------------------- trace validation

def write_trace_cfg(path, deviations, props, server_hvr=False, anti_replay=(), buffers=()):
    with open(path, "w") as f:
        f.write(f"""SPECIFICATION TraceSpec
CONSTANTS
  Buffers = {tla_set(buffers)}
  AntiReplay = {tla_set(anti_replay)}
  ServerHvr = {"TRUE" if server_hvr else "FALSE"}
  Deviations = {tla_set(deviations)}
  Lax = TRUE
  Props = {tla_set(props)}
CONSTRAINT Furthest
POSTCONDITION Post
CHECK_DEADLOCK FALSE
""")


class TraceTimeout(Exception):
    pass


def _tlc_trace(ck, trace_path, deviations, props, tag, timeout=150, **cfgkw):
    cfg = os.path.join(vlib.SPEC, f"Trace_DtlsHandshake_{tag}_{os.getpid()}.gen.cfg")
    write_trace_cfg(cfg, deviations, props, **cfgkw)
    try:
        res = vlib.tlc("Trace_DtlsHandshake", os.path.basename(cfg), workers=1, timeout=timeout, seed_arg=False,
                       tag=f"trace_{tag}", heap="4g",
                       env={"TRACE": trace_path,
                            "JAVA_TOOL_OPTIONS": "-Dtlc2.tool.queue.IStateQueue=StateDeque"})
    finally:
        try:
            os.remove(cfg)
        except OSError:
            pass
    verdict = None
    for line in res["raw_tail"]:
        if line.startswith('<<"TRACE", "accepted"'):
            verdict = ("accepted", None)
        elif line.startswith('<<"TRACE", "rejected"'):
            # <<"TRACE", "rejected", 17, "{...json...}">>
            body = line[len('<<"TRACE", "rejected", '):-2]
            idx, js = body.split(", ", 1)
            verdict = ("rejected", int(idx))
    if verdict is None:
        if res.get("timeout") or res["rc"] == 124:
            raise TraceTimeout(f"trace validation of {trace_path} timed out after {timeout}s")
        vlib.log("\n".join(res["raw_tail"][-40:]))
        raise vlib.ToolError(f"trace validation produced no verdict (rc={res['rc']}, errors={res['errors'][:2]})")
    return verdict, res


def validate_traces(ck, outcomes, deviations, tag, props=None, max_rejections=6, chunk=80, chunk_timeout=150,
                    parallel=4, **cfgkw):
    """Validate the normalised traces of all outcomes, in chunks (run `parallel` at a time) with a timeout each, so
    that one pathological trace cannot eat the budget. Returns (n_accepted, rejections, tlc_results); a rejection
    is {id, index, event, rule, before}. The rule is found by switching rule tags off. A chunk that times out is
    halved; a single trace that still times out is listed in ck.trace_timeouts (see finish_validation)."""
    from concurrent.futures import ThreadPoolExecutor
    import threading
    props = list(props or ALL_RULES)
    per = [(o["id"], normalise(o)) for o in outcomes if "panic" not in o]
    classified = {}
    lock = threading.Lock()
    state = {"rej": 0}
    if not hasattr(ck, "trace_timeouts"):
        ck.trace_timeouts = []

    def work(args):
        ci, first = args
        acc, rejs, ress, touts, skipped = 0, [], [], [], 0
        queue = [first]
        n = 0
        while queue:
            todo = queue.pop(0)
            while todo:
                with lock:
                    if state["rej"] >= max_rejections:
                        skipped += len(todo) + sum(len(q) for q in queue)
                        return acc, rejs, ress, touts, skipped
                n += 1
                t = f"{tag}_{ci}"
                path = os.path.join(ck.dir, f"trace_{t}.ndjson")
                rows, owner = [], []
                for sid, evs in todo:
                    for e in evs:
                        rows.append(e)
                        owner.append(sid)
                vlib.write_ndjson(path, rows)
                try:
                    (verdict, idx), res = _tlc_trace(ck, path, deviations, props, t, timeout=chunk_timeout, **cfgkw)
                except TraceTimeout:
                    if len(todo) > 1:
                        h = len(todo) // 2
                        queue[0:0] = [todo[:h], todo[h:]]
                    else:
                        touts.append(todo[0][0])
                    break
                finally:
                    try:
                        os.remove(path)
                    except OSError:
                        pass
                ress.append(res)
                if verdict == "accepted":
                    acc += len(todo)
                    break
                sid = owner[idx - 1]
                pos = [k for k, (s_, _) in enumerate(todo) if s_ == sid][0]
                evs = todo[pos][1]
                local = idx - 1 - sum(len(e) for _, e in todo[:pos])
                acc += pos
                # which rule rejected it: the single tag whose removal lets this scenario pass further
                rule = "unexplained"
                klass = (evs[local]["ev"], evs[local].get("inst"), evs[local].get("t"), evs[local].get("disp"),
                         evs[local].get("why"))
                with lock:
                    known = classified.get(klass)
                if known is not None:
                    rule = known
                else:
                    single = os.path.join(ck.dir, f"trace_{t}_one.ndjson")
                    vlib.write_ndjson(single, evs)
                    for tagname in props:
                        try:
                            (v2, i2), _ = _tlc_trace(ck, single, deviations, [p for p in props if p != tagname], t + "_r",
                                                     timeout=60, **cfgkw)
                        except TraceTimeout:
                            continue
                        if v2 == "accepted" or (i2 is not None and i2 - 1 > local):
                            rule = tagname
                            break
                    with lock:
                        classified[klass] = rule
                with lock:
                    state["rej"] += 1
                rejs.append({"id": sid, "index": local, "event": evs[local], "rule": rule,
                             "before": evs[max(0, local - 6):local]})
                todo = todo[pos + 1:]
        return acc, rejs, ress, touts, skipped

    chunks = [(i, per[k:k + chunk]) for i, k in enumerate(range(0, len(per), chunk))]
    accepted, rejections, results, skipped = 0, [], [], 0
    with ThreadPoolExecutor(max_workers=max(1, parallel)) as ex:
        for acc, rejs, ress, touts, sk in ex.map(work, chunks):
            accepted += acc
            rejections += rejs
            results += ress
            ck.trace_timeouts += touts
            skipped += sk
    if skipped:
        ck.notes.append(f"trace validation stopped after {len(rejections)} rejections; {skipped} traces not validated")
    return accepted, rejections, results


def finish_validation(ck):
    """A validation timeout is a tool error only if nothing else was found (then the verdict would rest on it)."""
    t = getattr(ck, "trace_timeouts", [])
    if not t:
        return
    ck.notes.append(f"trace validation timed out for {len(t)} traces (not validated): {t[:5]}")
    if not ck.violations and not ck.known_hits:
        raise vlib.ToolError(f"trace validation timed out for {len(t)} traces and no other finding exists: {t[:3]}")
