"""Driver helpers shared by every property check (see DESIGN.md 2.7).

run TLC and harvest its output, build/run harness binaries, match divergences
against KNOWN_FINDINGS.json, write evidence, print VIOLATION / KNOWN-FINDING lines.
"""
import hashlib
import json
import os
import re
import shutil
import subprocess
import sys
import time

ROOT = os.path.dirname(os.path.dirname(os.path.abspath(__file__)))
SPEC = os.path.join(ROOT, "spec")
HARNESS = os.path.join(ROOT, "harness")
OUT = os.path.join(ROOT, "out")
EVID = os.path.join(ROOT, "evidence")
KNOWN = os.path.join(ROOT, "KNOWN_FINDINGS.json")
if os.environ.get("VERIF_REPO"):
    # development runs against a scratch worktree keep their scratch files and evidence apart from the real ones
    _alt = "alt_" + os.path.basename(os.environ["VERIF_REPO"].rstrip("/"))
    OUT = os.path.join(ROOT, "out", _alt)
    EVID = os.path.join(OUT, "evidence")
NCPU = os.cpu_count() or 4


class ToolError(Exception):
    """Something in the machinery (not the code under test) failed: exit 2."""


def seed():
    try:
        return int(os.environ.get("VERIF_SEED", "1"))
    except ValueError:
        return 1


def outdir(pid):
    d = os.path.join(OUT, pid)
    os.makedirs(d, exist_ok=True)
    return d


def log(*a):
    print(*a, file=sys.stderr, flush=True)


# --------------------------------------------------------------------------- harness

def build_harness(bins=None):
    """cargo build of the harness against /repo's current working tree (hooks on)."""
    cmd = ["cargo", "build", "--release", "--offline", "--quiet"]
    for b in bins or []:
        cmd += ["--bin", b]
    env = dict(os.environ)
    alt = os.environ.get("VERIF_REPO")
    if alt:
        # development aid: build against a scratch worktree of /repo instead of /repo itself
        # (cargo `paths` override), with its own target directory. Registered commands never set this.
        cmd += ["--config", f'paths=["{alt}"]']
        env["CARGO_TARGET_DIR"] = _alt_target(alt)
    env.setdefault("CARGO_NET_OFFLINE", "true")
    t0 = time.time()
    p = subprocess.run(cmd, cwd=HARNESS, env=env, stdout=subprocess.PIPE, stderr=subprocess.STDOUT, text=True)
    if p.returncode != 0:
        # A build failure of /repo's current tree is not a verdict about the property.
        log(p.stdout[-4000:])
        raise ToolError("harness build failed")
    return time.time() - t0


def _alt_target(alt):
    return os.path.join(HARNESS, "target_alt", os.path.basename(alt.rstrip("/")))


def bin_path(name):
    alt = os.environ.get("VERIF_REPO")
    tdir = _alt_target(alt) if alt else (os.environ.get("CARGO_TARGET_DIR") or os.path.join(HARNESS, "target"))
    return os.path.join(tdir, "release", name)


def run_bin(name, args, timeout=600, env=None, stdin=None):
    e = dict(os.environ)
    e["VERIF_SEED"] = str(seed())
    if env:
        e.update(env)
    try:
        p = subprocess.run([bin_path(name)] + list(args), cwd=ROOT, env=e, stdout=subprocess.PIPE,
                           stderr=subprocess.PIPE, text=True, timeout=timeout, input=stdin)
    except subprocess.TimeoutExpired:
        raise ToolError(f"{name} timed out after {timeout}s")
    return p


def read_ndjson(path):
    out = []
    with open(path) as f:
        for line in f:
            line = line.strip()
            if line:
                out.append(json.loads(line))
    return out


def write_ndjson(path, rows):
    with open(path, "w") as f:
        for r in rows:
            f.write(json.dumps(r, separators=(",", ":")))
            f.write("\n")


# --------------------------------------------------------------------------- TLC

_TAG_RE = re.compile(r'^<<"([A-Z]+)", "(.*)">>$')


def tlc(module, cfg, *, workers=None, timeout=600, tags=(), sinks=None, simulate=None, depth=None,
        extra=(), env=None, heap="6g", coverage=False, tag=None, deadlock=False, seed_arg=True):
    """Run TLC on spec/<module>.tla with spec/<cfg>.

    Lines printed by the spec as PrintT(<<"TAG", json>>) for TAG in `tags` are decoded and
    written to sinks[TAG] (a path) as ndjson. Returns a dict with TLC's own numbers.
    """
    workers = workers or max(2, NCPU // 2)
    if tags:
        # PrintT output of concurrent TLC workers can interleave inside a line (observed: two JSON records
        # spliced together at ~600k lines with 8 workers). Emission runs are therefore single-worker, and
        # every emitted line is validated as JSON below.
        workers = 1
    meta = os.path.join(OUT, "tlc", (tag or module) + "." + str(os.getpid()))
    shutil.rmtree(meta, ignore_errors=True)
    os.makedirs(meta, exist_ok=True)
    cmd = ["timeout", str(int(timeout)), "tlc", "-workers", str(workers), "-metadir", meta, "-cleanup",
           "-noGenerateSpecTE", "-config", cfg]
    if simulate:
        cmd += ["-simulate", f"num={simulate}"]
    if depth:
        cmd += ["-depth", str(depth)]
    if seed_arg:
        cmd += ["-seed", str(seed())]
    if coverage:
        cmd += ["-coverage", "1"]
    if deadlock:
        cmd += ["-deadlock"]
    cmd += list(extra) + [module + ".tla"]
    e = dict(os.environ)
    jto = e.get("JAVA_TOOL_OPTIONS", "")
    e["JAVA_TOOL_OPTIONS"] = (jto + f" -Xmx{heap} -Xss512m").strip()
    if env:
        e.update(env)
    files = {}
    for t in tags:
        files[t] = open(sinks[t], "w")
    res = {"module": module, "cfg": cfg, "generated": 0, "distinct": 0, "depth": 0, "errors": [],
           "counts": {t: 0 for t in tags}, "finished": False, "raw_tail": [], "cmd": " ".join(cmd)}
    t0 = time.time()
    p = subprocess.Popen(cmd, cwd=SPEC, env=e, stdout=subprocess.PIPE, stderr=subprocess.STDOUT, text=True,
                         bufsize=1 << 20)
    tail = []
    err_block = None
    for line in p.stdout:
        line = line.rstrip("\n")
        m = _TAG_RE.match(line) if line.startswith('<<"') else None
        if m and m.group(1) in files:
            try:
                txt = json.loads('"' + m.group(2) + '"')
                if not (txt.startswith("{") or txt.startswith("[")) or txt.count('{"') < 1:
                    raise ValueError("not a JSON document")
            except ValueError:
                p.kill()
                raise ToolError(f"TLC emitted a malformed {m.group(1)} line (interleaved output?): {line[:200]}")
            files[m.group(1)].write(txt)
            files[m.group(1)].write("\n")
            res["counts"][m.group(1)] += 1
            continue
        if line.startswith('<<"') and any(('"' + t + '"') in line[:12] for t in files):
            p.kill()
            raise ToolError(f"TLC emitted a malformed tagged line: {line[:200]}")
        tail.append(line)
        if len(tail) > 400:
            del tail[:200]
        if line.startswith("Error:"):
            res["errors"].append(line)
        mm = re.match(r"^(\d+) states generated, (\d+) distinct states found", line)
        if mm:
            res["generated"], res["distinct"] = int(mm.group(1)), int(mm.group(2))
        mm = re.match(r"^The depth of the complete state graph search is (\d+)", line)
        if mm:
            res["depth"] = int(mm.group(1))
        if line.startswith("Model checking completed") or line.startswith("Finished in"):
            res["finished"] = True
        mm = re.match(r"^Progress\(\d+\).*: ([\d,]+) states generated.*?([\d,]+) distinct states found", line)
        if mm:
            res["generated"] = int(mm.group(1).replace(",", ""))
            res["distinct"] = int(mm.group(2).replace(",", ""))
        mm = re.match(r"^The number of states generated: (\d+)", line)
        if mm:  # simulation mode
            res["generated"] = int(mm.group(1))
            res["distinct"] = max(res["distinct"], 1)
    p.wait()
    for f in files.values():
        f.close()
    res["rc"] = p.returncode
    res["wall_s"] = round(time.time() - t0, 2)
    res["raw_tail"] = tail[-120:]
    shutil.rmtree(meta, ignore_errors=True)
    if p.returncode == 124:
        res["timeout"] = True
    return res


def tlc_ok(res, what=""):
    """TLC must have finished without any error; otherwise the machinery is broken (exit 2)
    unless the caller handles model-level errors itself."""
    if res.get("timeout"):
        raise ToolError(f"TLC timed out {what}: {res['cmd']}")
    if res["errors"] or res["rc"] != 0:
        log("\n".join(res["raw_tail"]))
        raise ToolError(f"TLC reported an error {what} (rc={res['rc']}): {res['errors'][:3]}")
    return res


# --------------------------------------------------------------------------- known findings

class Known:
    def __init__(self):
        self.entries = []
        if os.path.exists(KNOWN):
            with open(KNOWN) as f:
                self.entries = json.load(f).get("entries", [])

    def match(self, pid, sig):
        """Return the open entry whose signature is a sub-record of `sig`, or None."""
        for e in self.entries:
            if e.get("property") != pid or e.get("status") != "open":
                continue
            s = e.get("signature", {})
            if all(_sig_eq(sig.get(k), v) for k, v in s.items()):
                return e
        return None


def _sig_eq(a, b):
    if isinstance(b, list):
        return a in b
    return a == b


# --------------------------------------------------------------------------- verdict + evidence

class Check:
    """Collects what a run covered and found; `finish()` prints the verdict and exits."""

    def __init__(self, pid, tier, level="model_checking"):
        self.pid, self.tier, self.level = pid, tier, level
        self.t0 = time.time()
        self.cov = {"states": 0, "transitions": 0, "traces_validated_against_impl": 0, "samples": [],
                    "distinct_nontrivial": 0, "evaluations": 0, "rule": "", "exhaustive": False, "tlc_runs": []}
        self.assumptions = []
        self.violations = []   # (sig, record)
        self.known_hits = {}   # entry id -> (entry, count, example)
        self.drift = []
        self.notes = []
        self.known = Known()
        self.dir = outdir(pid)

    def add_tlc(self, res, label=None):
        self.cov["states"] += res["distinct"]
        self.cov["transitions"] += res["generated"]
        self.cov["tlc_runs"].append({"label": label or res["cfg"], "cfg": res["cfg"], "distinct": res["distinct"],
                                     "generated": res["generated"], "depth": res["depth"],
                                     "finished": res["finished"], "wall_s": res["wall_s"],
                                     "emitted": res["counts"]})

    def divergence(self, sig, record):
        """A step of the implementation the specification does not allow under this property's rules."""
        e = self.known.match(self.pid, sig)
        if e is not None:
            ent = self.known_hits.setdefault(e["id"], [e, 0, record])
            ent[1] += 1
        else:
            self.violations.append((sig, record))

    def finish(self):
        wall = round(time.time() - self.t0, 2)
        rc = 0
        for eid, (e, n, ex) in sorted(self.known_hits.items()):
            print(f"KNOWN-FINDING: property={self.pid} {eid} {e['what']} (x{n})")
        for d in self.drift[:5]:
            print(f"DRIFT: property={self.pid} (beyond the listed property, not a violation) {json.dumps(d)[:300]}")
        paths = []
        # group violations by signature so that each distinct one gets one replay file
        seen = {}
        for sig, rec in self.violations:
            k = json.dumps(sig, sort_keys=True)
            if k in seen:
                seen[k][2] += 1
                continue
            h = hashlib.sha1(k.encode()).hexdigest()[:10]
            path = os.path.join(self.dir, f"violation_{h}.json")
            seen[k] = [path, rec, 1]
            with open(path, "w") as f:
                json.dump({"property": self.pid, "signature": sig, "record": rec}, f, indent=1)
        for k, (path, rec, n) in seen.items():
            print(f"VIOLATION property={self.pid} replay={path}")
            log(f"  signature={k} occurrences={n}")
            rc = 1
        ev = {
            "property_id": self.pid, "tier": self.tier, "seed": seed(), "level": self.level,
            "coverage": self.cov, "assumptions": self.assumptions, "wall_s": wall,
            "violations": len(seen),
            "known_findings_hit": {k: v[1] for k, v in self.known_hits.items()},
            "drift": len(self.drift), "notes": self.notes,
        }
        if not self.cov["samples"]:
            self.cov["samples"] = ["(no sample recorded)"]
        os.makedirs(EVID, exist_ok=True)
        with open(os.path.join(EVID, f"{self.pid}.json"), "w") as f:
            json.dump(ev, f, indent=1, default=str)
        print(f"{self.pid} {self.tier}: states={self.cov['states']} transitions={self.cov['transitions']} "
              f"replayed/validated={self.cov['traces_validated_against_impl']} violations={len(seen)} "
              f"known={len(self.known_hits)} wall={wall}s")
        sys.exit(rc)


def distinct_count(rows, key):
    return len({json.dumps(key(r), sort_keys=True) for r in rows})
